//! netmc: real trackers / socket workers over loopback.

use std::net::{IpAddr, Ipv4Addr, Ipv6Addr, SocketAddr, SocketAddrV4, SocketAddrV6, UdpSocket};
use std::time::{Duration, Instant};

use aquatic_common::privileges::PrivilegeDropper;
use aquatic_udp::common::{State, Statistics};
use aquatic_udp::config::Config as UdpConfig;
use aquatic_udp::workers::socket::ConnectionValidator;

use crate::common::machinery_failure;

/// A port that is free for UDP and TCP on both loopback families right now
pub fn free_port() -> u16 {
    for _ in 0..200 {
        let s = match UdpSocket::bind("127.0.0.1:0") {
            Ok(s) => s,
            Err(_) => continue,
        };
        let p = s.local_addr().unwrap().port();
        let ok = UdpSocket::bind(("::1", p)).is_ok() && std::net::TcpListener::bind(("127.0.0.1", p)).is_ok() && std::net::TcpListener::bind(("::1", p)).is_ok() && UdpSocket::bind(("0.0.0.0", p + 1)).is_ok();
        drop(s);
        if ok && p < 60000 {
            return p;
        }
    }
    machinery_failure("no free port found");
}

pub struct UdpTracker {
    pub port: u16,
    pub config: UdpConfig,
    pub state: State,
    /// same key and start time as the workers' validators
    pub validator: ConnectionValidator,
    pub statistics: Statistics,
    pub stats_rx: crossbeam_channel::Receiver<aquatic_udp::common::StatisticsMessage>,
}

impl UdpTracker {
    /// Starts `workers` real socket workers (`run_socket_worker`) on threads of this process, sharing one
    /// harness-owned `State`. The threads run until the process exits.
    pub fn start(mut config: UdpConfig, workers: usize) -> UdpTracker {
        let port = free_port();
        config.socket_workers = workers;
        config.network.address_ipv4 = SocketAddrV4::new(Ipv4Addr::UNSPECIFIED, port);
        config.network.address_ipv6 = SocketAddrV6::new(Ipv6Addr::UNSPECIFIED, port, 0, 0);
        config.network.socket_recv_buffer_size = 0;
        let state = State::default();
        let statistics = Statistics::new(&config);
        let validator = ConnectionValidator::new(&config).unwrap();
        let (tx, rx) = crossbeam_channel::unbounded();
        let nsock = (config.network.use_ipv4 as usize) + (config.network.use_ipv6 as usize);
        let pd = PrivilegeDropper::new(config.privileges.clone(), workers * nsock);
        for i in 0..workers {
            let (c, s, st, tx, v) = (config.clone(), state.clone(), statistics.socket[i].clone(), tx.clone(), validator.clone());
            let pds: Vec<PrivilegeDropper> = (0..nsock).map(|_| pd.clone()).collect();
            std::thread::Builder::new()
                .name(format!("udp-socket-{}", i))
                .spawn(move || {
                    let r = aquatic_udp::workers::socket::run_socket_worker(c, s, st, tx, v, pds);
                    eprintln!("udp socket worker returned: {:?}", r.map_err(|e| format!("{:#}", e)));
                })
                .unwrap();
        }
        let t = UdpTracker { port, config, state, validator, statistics, stats_rx: rx };
        t.wait_ready();
        t
    }

    fn wait_ready(&self) {
        let families: Vec<bool> = [(self.config.network.use_ipv4, true), (self.config.network.use_ipv6, false)].iter().filter(|x| x.0).map(|x| x.1).collect();
        for v4 in families {
            let c = if v4 { UdpSocket::bind("127.0.0.1:0") } else { UdpSocket::bind("[::1]:0") }.unwrap();
            c.set_read_timeout(Some(Duration::from_millis(100))).unwrap();
            let dst: SocketAddr = if v4 { SocketAddr::new(IpAddr::V4(Ipv4Addr::LOCALHOST), self.port) } else { SocketAddr::new(IpAddr::V6(Ipv6Addr::LOCALHOST), self.port) };
            let t0 = Instant::now();
            let mut ok = false;
            // every worker must be up: with SO_REUSEPORT different source ports reach different workers
            let mut answered = 0;
            while t0.elapsed() < Duration::from_secs(8) {
                let c2 = if v4 { UdpSocket::bind("127.0.0.1:0") } else { UdpSocket::bind("[::1]:0") }.unwrap();
                c2.set_read_timeout(Some(Duration::from_millis(100))).unwrap();
                let mut b = Vec::new();
                b.extend_from_slice(&0x0417_2710_1980i64.to_be_bytes());
                b.extend_from_slice(&0i32.to_be_bytes());
                b.extend_from_slice(&77i32.to_be_bytes());
                let _ = c2.send_to(&b, dst);
                let mut buf = [0u8; 64];
                if let Ok((n, _)) = c2.recv_from(&mut buf) {
                    if n == 16 {
                        answered += 1;
                        if answered >= 8 * self.config.socket_workers {
                            ok = true;
                            break;
                        }
                    }
                }
            }
            drop(c);
            if !ok {
                machinery_failure(&format!("UDP tracker on port {} did not become ready (v4={})", self.port, v4));
            }
        }
    }

    pub fn dst(&self, v4: bool) -> SocketAddr {
        if v4 {
            SocketAddr::new(IpAddr::V4(Ipv4Addr::LOCALHOST), self.port)
        } else {
            SocketAddr::new(IpAddr::V6(Ipv6Addr::LOCALHOST), self.port)
        }
    }
}

pub fn udp_client(ip: IpAddr) -> UdpSocket {
    let s = UdpSocket::bind(SocketAddr::new(ip, 0)).unwrap_or_else(|e| machinery_failure(&format!("cannot bind client socket on {}: {}", ip, e)));
    s.set_read_timeout(Some(Duration::from_millis(20))).unwrap();
    s
}
