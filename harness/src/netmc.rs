//! netmc: real trackers / socket workers over loopback.

use std::net::{IpAddr, Ipv4Addr, Ipv6Addr, SocketAddr, SocketAddrV4, SocketAddrV6, UdpSocket};
use std::time::{Duration, Instant};

use aquatic_common::privileges::PrivilegeDropper;
use aquatic_udp::common::{State, Statistics};
use aquatic_udp::config::Config as UdpConfig;
use aquatic_udp::workers::socket::ConnectionValidator;

use crate::common::machinery_failure;

/// A block of four consecutive ports, free for UDP and TCP on both loopback families right now.
/// Blocks are handed out from a process-wide counter so that concurrently started trackers never collide.
pub fn free_port() -> u16 {
    use std::sync::atomic::{AtomicU32, Ordering};
    static NEXT: AtomicU32 = AtomicU32::new(0);
    let base = 20_000 + (std::process::id() % 97) * 64;
    for _ in 0..6000 {
        let k = NEXT.fetch_add(1, Ordering::SeqCst);
        let p = 20_000 + ((base - 20_000 + k * 4) % 32_000);
        let p = p as u16;
        let ok = (0..4).all(|i| {
            UdpSocket::bind(("0.0.0.0", p + i)).is_ok() && UdpSocket::bind(("::", p + i)).is_ok() && std::net::TcpListener::bind(("0.0.0.0", p + i)).is_ok() && std::net::TcpListener::bind(("::", p + i)).is_ok()
        });
        if ok {
            return p;
        }
    }
    machinery_failure("no free port block found");
}

pub struct UdpTracker {
    pub port: u16,
    pub config: UdpConfig,
    pub state: State,
    /// same key and start time as the workers' validators
    pub validator: ConnectionValidator,
    pub statistics: Statistics,
    pub stats_rx: crossbeam_channel::Receiver<aquatic_udp::common::StatisticsMessage>,
}

impl UdpTracker {
    /// Starts `workers` real socket workers (`run_socket_worker`) on threads of this process, sharing one
    /// harness-owned `State`. The threads run until the process exits.
    pub fn start(mut config: UdpConfig, workers: usize) -> UdpTracker {
        let port = free_port();
        config.socket_workers = workers;
        config.network.address_ipv4 = SocketAddrV4::new(Ipv4Addr::UNSPECIFIED, port);
        config.network.address_ipv6 = SocketAddrV6::new(Ipv6Addr::UNSPECIFIED, port, 0, 0);
        config.network.socket_recv_buffer_size = 0;
        let state = State::default();
        let statistics = Statistics::new(&config);
        let validator = ConnectionValidator::new(&config).unwrap();
        let (tx, rx) = crossbeam_channel::unbounded();
        let nsock = (config.network.use_ipv4 as usize) + (config.network.use_ipv6 as usize);
        let pd = PrivilegeDropper::new(config.privileges.clone(), workers * nsock);
        for i in 0..workers {
            let (c, s, st, tx, v) = (config.clone(), state.clone(), statistics.socket[i].clone(), tx.clone(), validator.clone());
            let pds: Vec<PrivilegeDropper> = (0..nsock).map(|_| pd.clone()).collect();
            std::thread::Builder::new()
                .name(format!("udp-socket-{}", i))
                .spawn(move || {
                    let r = aquatic_udp::workers::socket::run_socket_worker(c, s, st, tx, v, pds);
                    eprintln!("udp socket worker returned: {:?}", r.map_err(|e| format!("{:#}", e)));
                })
                .unwrap();
        }
        let t = UdpTracker { port, config, state, validator, statistics, stats_rx: rx };
        t.wait_ready();
        t
    }

    fn wait_ready(&self) {
        let families: Vec<bool> = [(self.config.network.use_ipv4, true), (self.config.network.use_ipv6, false)].iter().filter(|x| x.0).map(|x| x.1).collect();
        for v4 in families {
            let c = if v4 { UdpSocket::bind("127.0.0.1:0") } else { UdpSocket::bind("[::1]:0") }.unwrap();
            c.set_read_timeout(Some(Duration::from_millis(100))).unwrap();
            let dst: SocketAddr = if v4 { SocketAddr::new(IpAddr::V4(Ipv4Addr::LOCALHOST), self.port) } else { SocketAddr::new(IpAddr::V6(Ipv6Addr::LOCALHOST), self.port) };
            let t0 = Instant::now();
            let mut ok = false;
            // every worker must be up: with SO_REUSEPORT different source ports reach different workers
            let mut answered = 0;
            while t0.elapsed() < Duration::from_secs(8) {
                let c2 = if v4 { UdpSocket::bind("127.0.0.1:0") } else { UdpSocket::bind("[::1]:0") }.unwrap();
                c2.set_read_timeout(Some(Duration::from_millis(100))).unwrap();
                let mut b = Vec::new();
                b.extend_from_slice(&0x0417_2710_1980i64.to_be_bytes());
                b.extend_from_slice(&0i32.to_be_bytes());
                b.extend_from_slice(&77i32.to_be_bytes());
                let _ = c2.send_to(&b, dst);
                let mut buf = [0u8; 64];
                if let Ok((n, _)) = c2.recv_from(&mut buf) {
                    if n == 16 {
                        answered += 1;
                        if answered >= 8 * self.config.socket_workers {
                            ok = true;
                            break;
                        }
                    }
                }
            }
            drop(c);
            if !ok {
                machinery_failure(&format!("UDP tracker on port {} did not become ready (v4={})", self.port, v4));
            }
        }
    }

    pub fn dst(&self, v4: bool) -> SocketAddr {
        if v4 {
            SocketAddr::new(IpAddr::V4(Ipv4Addr::LOCALHOST), self.port)
        } else {
            SocketAddr::new(IpAddr::V6(Ipv6Addr::LOCALHOST), self.port)
        }
    }
}

pub fn udp_client(ip: IpAddr) -> UdpSocket {
    let s = UdpSocket::bind(SocketAddr::new(ip, 0)).unwrap_or_else(|e| machinery_failure(&format!("cannot bind client socket on {}: {}", ip, e)));
    s.set_read_timeout(Some(Duration::from_millis(20))).unwrap();
    s
}

// ---------------------------------------------------------------------------------------------
// Child-process trackers: `aqv serve <udp|http|ws> <config json>` calls the crate's `run()`

use std::io::{BufRead, BufReader, Read, Write};
use std::net::TcpStream;
use std::process::{Child, Command, Stdio};

pub struct TrackerChild {
    pub child: Child,
    pub port: u16,
    pub kind: &'static str,
    pub stdout_lines: std::sync::Arc<std::sync::Mutex<Vec<String>>>,
}

impl Drop for TrackerChild {
    fn drop(&mut self) {
        let _ = self.child.kill();
        let _ = self.child.wait();
    }
}

impl TrackerChild {
    /// `config` is a JSON object merged over the crate's default configuration; the listen address is filled in here.
    pub fn spawn(kind: &'static str, mut config: serde_json::Value, envs: &[(&str, String)]) -> TrackerChild {
        let port = free_port();
        // "PORT1" anywhere in the configuration: second port of the block (e.g. the metrics endpoint)
        config = serde_json::from_str(&config.to_string().replace("PORT1", &(port + 1).to_string())).unwrap();
        let net = config.as_object_mut().unwrap().entry("network").or_insert(serde_json::json!({}));
        if kind == "ws" {
            if net.get("address").is_none() {
                net["address"] = serde_json::json!(format!("[::]:{}", port));
                net["only_ipv6"] = serde_json::json!(false);
            } else {
                let a = net["address"].as_str().unwrap().replace("PORT", &port.to_string());
                net["address"] = serde_json::json!(a);
            }
        } else {
            for k in ["address_ipv4", "address_ipv6"] {
                let default = if k == "address_ipv4" { format!("0.0.0.0:{}", port) } else { format!("[::]:{}", port) };
                let a = net.get(k).and_then(|a| a.as_str()).map(|a| a.replace("PORT", &port.to_string())).unwrap_or(default);
                net[k] = serde_json::json!(a);
            }
        }
        let exe = std::env::current_exe().unwrap();
        let mut cmd = Command::new(exe);
        cmd.arg("serve").arg(kind).arg(config.to_string()).stdout(Stdio::piped()).stderr(if std::env::var("AQV_DEBUG").is_ok() { Stdio::inherit() } else { Stdio::null() }).stdin(Stdio::null());
        for (k, v) in envs {
            cmd.env(k, v);
        }
        let mut child = cmd.spawn().unwrap_or_else(|e| machinery_failure(&format!("cannot spawn tracker child: {}", e)));
        let out = child.stdout.take().unwrap();
        let lines = std::sync::Arc::new(std::sync::Mutex::new(Vec::new()));
        let l2 = lines.clone();
        std::thread::spawn(move || {
            for l in BufReader::new(out).lines().map_while(Result::ok) {
                l2.lock().unwrap().push(l);
            }
        });
        TrackerChild { child, port, kind, stdout_lines: lines }
    }

    pub fn exited(&mut self) -> Option<i32> {
        match self.child.try_wait() {
            Ok(Some(s)) => Some(s.code().unwrap_or(-1)),
            _ => None,
        }
    }

    pub fn line_with(&self, pat: &str) -> Option<String> {
        self.stdout_lines.lock().unwrap().iter().find(|l| l.contains(pat)).cloned()
    }

    /// Like `line_with`, but gives the stdout reader thread up to `ms` to catch up (used after the child has exited)
    pub fn line_with_wait(&self, pat: &str, ms: u64) -> Option<String> {
        let t0 = Instant::now();
        loop {
            if let Some(l) = self.line_with(pat) {
                return Some(l);
            }
            if t0.elapsed() > Duration::from_millis(ms) {
                return None;
            }
            std::thread::sleep(Duration::from_millis(10));
        }
    }

    /// Wait until the tracker accepts TCP connections (http / ws) or answers a UDP connect; false if it exited first
    pub fn wait_ready(&mut self, secs: u64) -> bool {
        let t0 = Instant::now();
        while t0.elapsed() < Duration::from_secs(secs) {
            if self.exited().is_some() {
                return false;
            }
            if self.kind == "udp" {
                if let Ok(c) = UdpSocket::bind("127.0.0.1:0").or_else(|_| UdpSocket::bind("[::1]:0")) {
                    c.set_read_timeout(Some(Duration::from_millis(100))).unwrap();
                    let mut b = Vec::new();
                    b.extend_from_slice(&0x0417_2710_1980i64.to_be_bytes());
                    b.extend_from_slice(&0i32.to_be_bytes());
                    b.extend_from_slice(&77i32.to_be_bytes());
                    for dst in [SocketAddr::new(IpAddr::V4(Ipv4Addr::LOCALHOST), self.port), SocketAddr::new(IpAddr::V6(Ipv6Addr::LOCALHOST), self.port)] {
                        if c.local_addr().unwrap().is_ipv4() != dst.is_ipv4() {
                            continue;
                        }
                        let _ = c.send_to(&b, dst);
                        let mut buf = [0u8; 64];
                        if let Ok((16, _)) = c.recv_from(&mut buf) {
                            return true;
                        }
                    }
                    if let Ok(c6) = UdpSocket::bind("[::1]:0") {
                        c6.set_read_timeout(Some(Duration::from_millis(100))).unwrap();
                        let _ = c6.send_to(&b, SocketAddr::new(IpAddr::V6(Ipv6Addr::LOCALHOST), self.port));
                        let mut buf = [0u8; 64];
                        if let Ok((16, _)) = c6.recv_from(&mut buf) {
                            return true;
                        }
                    }
                }
            } else {
                for a in [SocketAddr::new(IpAddr::V4(Ipv4Addr::LOCALHOST), self.port), SocketAddr::new(IpAddr::V6(Ipv6Addr::LOCALHOST), self.port)] {
                    if TcpStream::connect_timeout(&a, Duration::from_millis(200)).is_ok() {
                        // a socket worker listens before it has joined its channel meshes: ready means that requests are
                        // answered. All socket workers share the port, so a dozen fresh connections in a row have to be served.
                        let mut served = 0;
                        while served < 12 && t0.elapsed() < Duration::from_secs(secs) && self.exited().is_none() {
                            if serving(self.kind, a, 0x5eed_0000 + served as u64) {
                                served += 1;
                            } else {
                                served = 0;
                                std::thread::sleep(Duration::from_millis(100));
                            }
                        }
                        return served >= 12;
                    }
                }
            }
            std::thread::sleep(Duration::from_millis(30));
        }
        false
    }
}

/// `aqv serve`: run a tracker in this process; prints RUN-RETURNED when `run()` returns
struct StderrLog;
impl log::Log for StderrLog {
    fn enabled(&self, m: &log::Metadata) -> bool {
        m.target().starts_with("aquatic")
    }
    fn log(&self, r: &log::Record) {
        if self.enabled(r.metadata()) {
            eprintln!("[{} {}] {}", r.level(), r.target(), r.args());
        }
    }
    fn flush(&self) {}
}
static STDERR_LOG: StderrLog = StderrLog;

pub fn serve(args: &[String]) -> ! {
    let kind = args.first().map(|s| s.as_str()).unwrap_or("");
    let json = args.get(1).map(|s| s.as_str()).unwrap_or("{}");
    // die with the driver, whatever way it exits
    unsafe {
        libc::prctl(libc::PR_SET_PDEATHSIG, libc::SIGKILL);
        if libc::getppid() == 1 {
            std::process::exit(4);
        }
    }
    crate::fault::install_from_env();
    if std::env::var("AQV_DEBUG").is_ok() {
        let _ = log::set_logger(&STDERR_LOG);
        log::set_max_level(log::LevelFilter::Debug);
    }
    if std::env::var("AQV_WATCH_RELOADS").is_ok() {
        std::thread::spawn(|| {
            let mut last = 0;
            loop {
                let n = aquatic_common::verif::reload_count();
                while last < n {
                    last += 1;
                    println!("RELOAD-COUNT {}", last);
                    std::io::stdout().flush().ok();
                }
                std::thread::sleep(Duration::from_millis(5));
            }
        });
    }
    let t0 = Instant::now();
    let r: Result<(), String> = match kind {
        "udp" => serde_json::from_str::<aquatic_udp::config::Config>(json).map_err(|e| format!("config: {}", e)).and_then(|c| aquatic_udp::run(c).map_err(|e| format!("{:#}", e))),
        "http" => serde_json::from_str::<aquatic_http::config::Config>(json).map_err(|e| format!("config: {}", e)).and_then(|c| aquatic_http::run(c).map_err(|e| format!("{:#}", e))),
        "ws" => serde_json::from_str::<aquatic_ws::config::Config>(json).map_err(|e| format!("config: {}", e)).and_then(|c| aquatic_ws::run(c).map_err(|e| format!("{:#}", e))),
        _ => Err("unknown tracker kind".into()),
    };
    let fault_at = crate::fault::fired_at();
    println!(
        "RUN-RETURNED {} after_start_ms={} after_fault_ms={} :: {}",
        if r.is_ok() { "Ok" } else { "Err" },
        t0.elapsed().as_millis(),
        fault_at.map(|t| t.elapsed().as_millis() as i64).unwrap_or(-1),
        r.err().unwrap_or_default()
    );
    std::io::stdout().flush().ok();
    std::process::exit(3);
}

// ---------------------------------------------------------------------------------------------
// Minimal HTTP/1.1 client

pub struct HttpConn {
    pub stream: TcpStream,
    pub buf: Vec<u8>,
}

#[derive(Debug, Clone)]
pub struct HttpReply {
    pub status_line: String,
    pub content_length: Option<usize>,
    pub content_length_raw: String,
    pub body: Vec<u8>,
    pub header_bytes: usize,
}

#[derive(Debug, Clone, PartialEq)]
pub enum HttpErr {
    Closed(usize),
    Timeout(usize),
    Malformed(String),
}

pub static CONNECT_FAILURES: std::sync::atomic::AtomicU64 = std::sync::atomic::AtomicU64::new(0);

fn note_connect(ok: bool) {
    use std::sync::atomic::Ordering;
    if ok {
        CONNECT_FAILURES.store(0, Ordering::Relaxed);
    } else if CONNECT_FAILURES.fetch_add(1, Ordering::Relaxed) > 40 {
        machinery_failure("more than 40 consecutive TCP connects to a tracker failed: tracker gone or not accepting");
    }
}

impl HttpConn {
    pub fn connect(addr: SocketAddr) -> Option<HttpConn> {
        let r = TcpStream::connect_timeout(&addr, Duration::from_secs(3));
        note_connect(r.is_ok());
        let s = r.ok()?;
        s.set_nodelay(true).ok();
        s.set_read_timeout(Some(Duration::from_secs(5))).ok();
        Some(HttpConn { stream: s, buf: Vec::new() })
    }

    pub fn connect_from(local_ip: IpAddr, addr: SocketAddr) -> Option<HttpConn> {
        let domain = if addr.is_ipv4() { socket2::Domain::IPV4 } else { socket2::Domain::IPV6 };
        let s = socket2::Socket::new(domain, socket2::Type::STREAM, Some(socket2::Protocol::TCP)).ok()?;
        s.bind(&SocketAddr::new(local_ip, 0).into()).ok()?;
        s.connect_timeout(&addr.into(), Duration::from_secs(3)).ok()?;
        let s: TcpStream = s.into();
        s.set_nodelay(true).ok();
        s.set_read_timeout(Some(Duration::from_secs(5))).ok();
        Some(HttpConn { stream: s, buf: Vec::new() })
    }

    pub fn send(&mut self, bytes: &[u8]) -> bool {
        self.stream.write_all(bytes).is_ok()
    }

    /// Read exactly one response (headers + Content-Length bytes). Surplus bytes stay in the buffer.
    pub fn read_reply(&mut self) -> Result<HttpReply, HttpErr> {
        loop {
            if let Some(pos) = find(&self.buf, b"\r\n\r\n") {
                let head = String::from_utf8_lossy(&self.buf[..pos]).to_string();
                let mut lines = head.split("\r\n");
                let status_line = lines.next().unwrap_or("").to_string();
                let mut cl_raw = String::new();
                for l in lines {
                    if let Some(v) = l.strip_prefix("Content-Length:") {
                        cl_raw = v.to_string();
                    }
                }
                let cl: Option<usize> = cl_raw.trim().parse().ok();
                let body_start = pos + 4;
                match cl {
                    None => return Err(HttpErr::Malformed(format!("Content-Length {:?} does not parse", cl_raw))),
                    Some(n) => {
                        while self.buf.len() < body_start + n {
                            let mut tmp = [0u8; 8192];
                            match self.stream.read(&mut tmp) {
                                Ok(0) => return Err(HttpErr::Closed(self.buf.len())),
                                Ok(k) => self.buf.extend_from_slice(&tmp[..k]),
                                Err(e) if e.kind() == std::io::ErrorKind::WouldBlock || e.kind() == std::io::ErrorKind::TimedOut => return Err(HttpErr::Timeout(self.buf.len())),
                                Err(_) => return Err(HttpErr::Closed(self.buf.len())),
                            }
                        }
                        let body = self.buf[body_start..body_start + n].to_vec();
                        self.buf.drain(..body_start + n);
                        return Ok(HttpReply { status_line, content_length: cl, content_length_raw: cl_raw, body, header_bytes: body_start });
                    }
                }
            }
            let mut tmp = [0u8; 8192];
            match self.stream.read(&mut tmp) {
                Ok(0) => return Err(HttpErr::Closed(self.buf.len())),
                Ok(k) => self.buf.extend_from_slice(&tmp[..k]),
                Err(e) if e.kind() == std::io::ErrorKind::WouldBlock || e.kind() == std::io::ErrorKind::TimedOut => return Err(HttpErr::Timeout(self.buf.len())),
                Err(_) => return Err(HttpErr::Closed(self.buf.len())),
            }
        }
    }

    /// After the last request: anything more arriving within `ms`?
    pub fn drain(&mut self, ms: u64) -> Vec<u8> {
        self.stream.set_read_timeout(Some(Duration::from_millis(ms))).ok();
        let mut tmp = [0u8; 4096];
        let mut extra = self.buf.clone();
        while let Ok(k) = self.stream.read(&mut tmp) {
            if k == 0 {
                break;
            }
            extra.extend_from_slice(&tmp[..k]);
        }
        self.stream.set_read_timeout(Some(Duration::from_secs(5))).ok();
        extra
    }
}

/// Wait until a TCP connect to `addr` succeeds (a tracker opens its IPv4 and IPv6 listeners one after the other)
pub fn wait_tcp(addr: SocketAddr, secs: u64) -> bool {
    let t0 = Instant::now();
    while t0.elapsed() < Duration::from_secs(secs) {
        if TcpStream::connect_timeout(&addr, Duration::from_millis(200)).is_ok() {
            return true;
        }
        std::thread::sleep(Duration::from_millis(20));
    }
    false
}

pub fn find(h: &[u8], n: &[u8]) -> Option<usize> {
    h.windows(n.len()).position(|w| w == n)
}

pub fn http_announce_path(hash: &[u8; 20], peer_id: &[u8; 20], port: u16, left: u64, event: &str, numwant: Option<usize>, pad: usize) -> String {
    let enc = |b: &[u8; 20]| b.iter().map(|x| format!("%{:02x}", x)).collect::<String>();
    let mut s = format!("/announce?info_hash={}&peer_id={}&port={}&uploaded=0&downloaded=0&left={}&compact=1", enc(hash), enc(peer_id), port, left);
    if !event.is_empty() {
        s.push_str(&format!("&event={}", event));
    }
    if let Some(n) = numwant {
        s.push_str(&format!("&numwant={}", n));
    }
    if pad > 0 {
        s.push_str(&format!("&pad={}", "p".repeat(pad)));
    }
    s
}

pub fn http_get(path: &str, extra_headers: &str) -> Vec<u8> {
    format!("GET {} HTTP/1.1\r\nHost: t\r\n{}\r\n", path, extra_headers).into_bytes()
}

/// Does the tracker answer a real request on a fresh connection to `addr` within 5 s (HTTP: plain announce; WS: scrape)?
pub fn serving(kind: &str, addr: SocketAddr, tag: u64) -> bool {
    if kind == "http" {
        // a reply, or the connection closed by the tracker (e.g. a tracker behind a reverse proxy refusing a request without
        // its header): either way a socket worker has read and processed the request
        let mut h = [0x5a_u8; 20];
        h[..8].copy_from_slice(&tag.to_be_bytes());
        match HttpConn::connect(addr) {
            // (the headers are for trackers configured to run behind a reverse proxy: without one the request is a breach of
            // the documented deployment contract)
            Some(mut c) => c.send(&http_get(&http_announce_path(&h, &[b'L'; 20], 4000, 1, "started", None, 0), "X-Forwarded-For: 127.0.0.9\r\nX-Real-Client: 127.0.0.9\r\n")) && !matches!(c.read_reply(), Err(HttpErr::Timeout(_))),
            None => false,
        }
    } else {
        match WsConn::connect(addr) {
            Some(mut c) => {
                let mut h = [0x5bu8; 20];
                h[..8].copy_from_slice(&tag.to_be_bytes());
                c.send_text(serde_json::json!({"action": "scrape", "info_hash": id20(&h)}).to_string()) && c.recv_text(5000).is_some()
            }
            None => false,
        }
    }
}

/// Every socket worker of a tracker started with one port per worker (hook H7) answers a real request; up to `secs`
pub fn all_workers_serving(kind: &str, base_port: u16, workers: u8, secs: u64) -> bool {
    let t0 = Instant::now();
    for w in 0..workers {
        let addr = SocketAddr::new(IpAddr::V4(Ipv4Addr::LOCALHOST), base_port + w as u16);
        loop {
            if serving(kind, addr, 0x5eed_1000 + w as u64) {
                break;
            }
            if t0.elapsed() > Duration::from_secs(secs) {
                return false;
            }
            std::thread::sleep(Duration::from_millis(100));
        }
    }
    true
}

/// Thread states of a child process read from /proc (no ptrace: attaching would interrupt its system calls)
pub fn proc_thread_states(pid: u32) -> Vec<String> {
    let mut v = Vec::new();
    if let Ok(rd) = std::fs::read_dir(format!("/proc/{}/task", pid)) {
        for e in rd.flatten() {
            let p = e.path();
            let rd = |f: &str| std::fs::read_to_string(p.join(f)).unwrap_or_default().trim().to_string();
            let stat = rd("stat");
            let fields: Vec<&str> = stat.rsplit(')').next().unwrap_or("").split_whitespace().collect();
            v.push(format!("{} state={} wchan={} syscall={} utime={} stime={}", rd("comm"), fields.first().unwrap_or(&"?"), rd("wchan"), rd("syscall").split(' ').next().unwrap_or("?"), fields.get(11).unwrap_or(&"?"), fields.get(12).unwrap_or(&"?")));
        }
    }
    v
}

/// Does the HTTP tracker answer a plain announce on a fresh connection to `addr` within 5 s?
pub fn http_alive(addr: SocketAddr, tag: u64) -> bool {
    let mut h = [0x5a_u8; 20];
    h[..8].copy_from_slice(&tag.to_be_bytes());
    match HttpConn::connect(addr) {
        Some(mut c) => c.send(&http_get(&http_announce_path(&h, &[b'L'; 20], 4000, 1, "started", None, 0), "")) && c.read_reply().is_ok(),
        None => false,
    }
}

// ---------------------------------------------------------------------------------------------
// Minimal WebSocket client (tungstenite over a blocking TcpStream)

pub struct WsConn {
    pub ws: tungstenite::WebSocket<TcpStream>,
}

impl WsConn {
    pub fn connect(addr: SocketAddr) -> Option<WsConn> {
        Self::connect_from(None, addr)
    }

    /// Up to six attempts over ~30 s: on a loaded machine a socket worker that is still joining its channel meshes lets
    /// the handshake wait, and being unable to connect is never a verdict by itself
    pub fn connect_patiently(addr: SocketAddr) -> Option<WsConn> {
        for attempt in 0..6 {
            if let Some(c) = Self::connect_from(None, addr) {
                return Some(c);
            }
            std::thread::sleep(Duration::from_millis(200 * (attempt + 1)));
        }
        None
    }

    pub fn connect_from(local_ip: Option<IpAddr>, addr: SocketAddr) -> Option<WsConn> {
        let s: TcpStream = match local_ip {
            None => {
                let r = TcpStream::connect_timeout(&addr, Duration::from_secs(3));
                note_connect(r.is_ok());
                if let (Err(e), true) = (&r, std::env::var("AQV_DEBUG").is_ok()) {
                    eprintln!("tcp connect to {} failed: {}", addr, e);
                }
                r.ok()?
            }
            Some(ip) => {
                let domain = if addr.is_ipv4() { socket2::Domain::IPV4 } else { socket2::Domain::IPV6 };
                let s = socket2::Socket::new(domain, socket2::Type::STREAM, Some(socket2::Protocol::TCP)).ok()?;
                s.bind(&SocketAddr::new(ip, 0).into()).ok()?;
                s.connect_timeout(&addr.into(), Duration::from_secs(3)).ok()?;
                s.into()
            }
        };
        s.set_nodelay(true).ok();
        s.set_read_timeout(Some(Duration::from_secs(5))).ok();
        let url = format!("ws://{}/", addr);
        match tungstenite::client(url, s) {
            Ok((ws, _)) => Some(WsConn { ws }),
            Err(e) => {
                if std::env::var("AQV_DEBUG").is_ok() {
                    eprintln!("ws handshake with {} failed: {}", addr, e);
                }
                None
            }
        }
    }

    pub fn send_text(&mut self, t: String) -> bool {
        self.ws.send(tungstenite::Message::text(t)).is_ok()
    }

    /// Next text message within `ms`, None on timeout / close
    pub fn recv_text(&mut self, ms: u64) -> Option<String> {
        self.ws.get_ref().set_read_timeout(Some(Duration::from_millis(ms.max(1)))).ok();
        loop {
            match self.ws.read() {
                Ok(tungstenite::Message::Text(t)) => return Some(t.as_str().to_string()),
                Ok(tungstenite::Message::Binary(b)) => return Some(String::from_utf8_lossy(&b).to_string()),
                Ok(tungstenite::Message::Close(_)) => return None,
                Ok(_) => continue,
                Err(_) => return None,
            }
        }
    }

    /// like `recv_text`, but a timeout (Ok(None)) is told apart from a closed or failed connection (Err)
    pub fn recv_text_or_closed(&mut self, ms: u64) -> Result<Option<String>, ()> {
        self.ws.get_ref().set_read_timeout(Some(Duration::from_millis(ms.max(1)))).ok();
        loop {
            match self.ws.read() {
                Ok(tungstenite::Message::Text(t)) => return Ok(Some(t.as_str().to_string())),
                Ok(tungstenite::Message::Binary(b)) => return Ok(Some(String::from_utf8_lossy(&b).to_string())),
                Ok(tungstenite::Message::Close(_)) => return Err(()),
                Ok(_) => continue,
                Err(tungstenite::Error::Io(e)) if e.kind() == std::io::ErrorKind::WouldBlock || e.kind() == std::io::ErrorKind::TimedOut => return Ok(None),
                Err(_) => return Err(()),
            }
        }
    }

    /// true if the peer closed / reset the connection within `ms`
    pub fn closed_within(&mut self, ms: u64) -> bool {
        self.ws.get_ref().set_read_timeout(Some(Duration::from_millis(ms.max(1)))).ok();
        loop {
            match self.ws.read() {
                Ok(tungstenite::Message::Close(_)) => return true,
                Ok(_) => continue,
                Err(tungstenite::Error::Io(e)) if e.kind() == std::io::ErrorKind::WouldBlock || e.kind() == std::io::ErrorKind::TimedOut => return false,
                Err(_) => return true,
            }
        }
    }

    pub fn close_orderly(mut self) {
        let _ = self.ws.close(None);
        let _ = self.ws.flush();
        // read until the close handshake completes or times out
        self.ws.get_ref().set_read_timeout(Some(Duration::from_millis(300))).ok();
        for _ in 0..5 {
            if self.ws.read().is_err() {
                break;
            }
        }
    }

    pub fn close_abrupt(self) {
        // SO_LINGER 0: RST
        let s = self.ws.get_ref();
        let sock = socket2::SockRef::from(s);
        let _ = sock.set_linger(Some(Duration::from_secs(0)));
        drop(self);
    }
}

pub fn id20(b: &[u8; 20]) -> String {
    b.iter().map(|x| char::from(*x)).collect()
}
