//! coop: controlled scheduler for real threads (CHESS style).
//!
//! One baton; exactly one program thread runs at any time. The instrumented lock type in
//! aquatic_udp (hook H3) calls the thread-local lock-event handler before every acquire / upgrade and
//! after every release; the handler is the scheduling point. The controller keeps a mirror lock table
//! with parking_lot's compatibility rules and only grants an acquisition when the real call underneath
//! cannot block. Exploration is stateless DFS with prefix replay.

use std::collections::{BTreeMap, HashMap, HashSet};
use std::sync::{Arc, Condvar, Mutex};
use std::time::Duration;

use aquatic_common::verif::{set_thread_lock_handler, LockOp};

use crate::common::machinery_failure;

#[derive(Clone, Copy, Debug, PartialEq, Eq, Hash)]
pub enum Pending {
    Start,
    Resume,
    Read(usize),
    Upgradable(usize),
    WriteClaim(usize),
    WriteDrain(usize),
    UpgradeClaim(usize),
    UpgradeDrain(usize),
}

#[derive(Default, Debug, Clone, PartialEq, Eq, Hash, PartialOrd, Ord)]
pub struct LockState {
    pub readers: Vec<usize>,
    pub upgradable: Option<usize>,
    pub writer: Option<usize>,
    /// WRITER_BIT taken by a thread that still waits for readers to drain
    pub claim: Option<usize>,
}

#[derive(Clone, Debug)]
pub struct Choice {
    pub enabled: Vec<usize>,
    pub chosen: usize,
    pub prev: Option<usize>,
    /// the previously running thread was still enabled (switching away is a preemption)
    pub prev_enabled: bool,
}

struct Ctl {
    n: usize,
    pending: Vec<Option<Pending>>,
    finished: Vec<bool>,
    running: Option<usize>,
    granted: Option<usize>,
    locks: HashMap<usize, LockState>,
    shared: Box<dyn Fn(usize) -> bool + Send>,
    shard_locks: HashSet<usize>,
    held: Vec<Vec<(usize, bool)>>, // per thread: (addr, is_shard)
    pub inversion: Option<String>,
    pub foreign_touch: Option<String>,
    private_owner: HashMap<usize, usize>,
    seq: u64,
    points: u64,
    // scheduling decisions are taken by whichever thread parks last (no controller thread in the loop)
    prefix: Vec<usize>,
    choices: Vec<Choice>,
    prev: Option<usize>,
    preemptions: usize,
    deadlock: Option<String>,
    diverged: Option<String>,
    done: bool,
}

pub struct Shared {
    ctl: Mutex<Ctl>,
    /// controller waits here
    cv: Condvar,
    /// program thread i waits here
    tcv: Vec<Condvar>,
}

impl Shared {
    fn point(&self, tid: usize, p: Pending) {
        let mut g = self.ctl.lock().unwrap();
        g.pending[tid] = Some(p);
        g.running = None;
        g.points += 1;
        self.schedule(&mut g);
        while g.granted != Some(tid) {
            g = self.tcv[tid].wait(g).unwrap();
        }
        g.granted = None;
        g.running = Some(tid);
        g.pending[tid] = None;
    }

    /// Called with the baton given up. Decides who runs next once every unfinished thread is parked.
    fn schedule(&self, g: &mut Ctl) {
        if g.done || g.granted.is_some() || g.running.is_some() {
            return;
        }
        if !(0..g.n).all(|t| g.finished[t] || g.pending[t].is_some()) {
            return; // start-up: somebody has not arrived yet
        }
        if (0..g.n).all(|t| g.finished[t]) {
            g.done = true;
            self.cv.notify_one();
            return;
        }
        let en: Vec<usize> = (0..g.n).filter(|t| !g.finished[*t] && enabled(g, *t)).collect();
        if en.is_empty() {
            g.deadlock = Some(format!("no enabled thread: pending operations {:?}", g.pending));
            g.done = true;
            self.cv.notify_one();
            return;
        }
        let idx = g.choices.len();
        let prev = g.prev;
        let prev_enabled = prev.map(|p| en.contains(&p)).unwrap_or(false);
        let chosen = if idx < g.prefix.len() {
            if !en.contains(&g.prefix[idx]) {
                g.diverged = Some(format!("divergence while replaying prefix at point {}: thread {} not enabled ({:?})", idx, g.prefix[idx], en));
                g.done = true;
                self.cv.notify_one();
                return;
            }
            g.prefix[idx]
        } else if prev_enabled {
            prev.unwrap()
        } else {
            en[0]
        };
        if prev_enabled && Some(chosen) != prev {
            g.preemptions += 1;
        }
        g.choices.push(Choice { enabled: en, chosen, prev, prev_enabled });
        apply_grant(g, chosen);
        g.granted = Some(chosen);
        g.prev = Some(chosen);
        self.tcv[chosen].notify_one();
    }

    pub fn next_seq(&self) -> u64 {
        let mut g = self.ctl.lock().unwrap();
        g.seq += 1;
        g.seq
    }

    fn on_lock_event(&self, tid: usize, addr: usize, op: LockOp) {
        let (is_shared, is_shard) = {
            let mut g = self.ctl.lock().unwrap();
            let sh = (g.shared)(addr);
            let is_shard = g.shard_locks.contains(&addr);
            if !sh {
                // classified private: must only ever be touched by one thread
                match g.private_owner.get(&addr) {
                    None => {
                        g.private_owner.insert(addr, tid);
                    }
                    Some(o) if *o != tid => {
                        g.foreign_touch = Some(format!("lock {:#x} classified private to thread {} touched by thread {}", addr, o, tid));
                    }
                    _ => {}
                }
            }
            (sh, is_shard)
        };
        match op {
            LockOp::Read | LockOp::Upgradable | LockOp::Write => {
                // Goodlock-style order check: never acquire a shard lock while holding a peer-map lock
                {
                    let mut g = self.ctl.lock().unwrap();
                    if is_shard && g.held[tid].iter().any(|(_, s)| !*s) {
                        g.inversion = Some(format!("thread {} acquires a shard lock while holding a peer-map lock", tid));
                    }
                }
                if is_shared {
                    match op {
                        LockOp::Read => self.point(tid, Pending::Read(addr)),
                        LockOp::Upgradable => self.point(tid, Pending::Upgradable(addr)),
                        _ => {
                            self.point(tid, Pending::WriteClaim(addr));
                            let need_drain = {
                                let g = self.ctl.lock().unwrap();
                                g.locks.get(&addr).map(|l| l.claim == Some(tid)).unwrap_or(false)
                            };
                            if need_drain {
                                self.point(tid, Pending::WriteDrain(addr));
                            }
                        }
                    }
                } else {
                    let mut g = self.ctl.lock().unwrap();
                    let l = g.locks.entry(addr).or_default();
                    match op {
                        LockOp::Read => l.readers.push(tid),
                        LockOp::Upgradable => l.upgradable = Some(tid),
                        _ => l.writer = Some(tid),
                    }
                }
                let mut g = self.ctl.lock().unwrap();
                g.held[tid].push((addr, is_shard));
            }
            LockOp::Upgrade => {
                if is_shared {
                    self.point(tid, Pending::UpgradeClaim(addr));
                    let need_drain = {
                        let g = self.ctl.lock().unwrap();
                        g.locks.get(&addr).map(|l| l.claim == Some(tid)).unwrap_or(false)
                    };
                    if need_drain {
                        self.point(tid, Pending::UpgradeDrain(addr));
                    }
                } else {
                    let mut g = self.ctl.lock().unwrap();
                    let l = g.locks.entry(addr).or_default();
                    l.upgradable = None;
                    l.writer = Some(tid);
                }
            }
            LockOp::ReleaseRead | LockOp::ReleaseUpgradable | LockOp::ReleaseWrite => {
                {
                    let mut g = self.ctl.lock().unwrap();
                    lock_release(g.locks.entry(addr).or_default(), tid, op);
                    if let Some(i) = g.held[tid].iter().rposition(|(a, _)| *a == addr) {
                        g.held[tid].remove(i);
                    }
                }
                if is_shared {
                    self.point(tid, Pending::Resume);
                }
            }
        }
    }
}

fn enabled(g: &Ctl, tid: usize) -> bool {
    let p = match g.pending[tid] {
        Some(p) => p,
        None => return false,
    };
    match pending_addr(p) {
        None => true,
        Some(a) => match g.locks.get(&a) {
            Some(l) => lock_enabled(l, tid, p),
            None => lock_enabled(&LockState::default(), tid, p),
        },
    }
}

fn apply_grant(g: &mut Ctl, tid: usize) {
    let p = g.pending[tid].unwrap();
    if let Some(a) = pending_addr(p) {
        lock_apply(g.locks.entry(a).or_default(), tid, p);
    }
}

fn pending_addr(p: Pending) -> Option<usize> {
    match p {
        Pending::Start | Pending::Resume => None,
        Pending::Read(a) | Pending::Upgradable(a) | Pending::WriteClaim(a) | Pending::WriteDrain(a) | Pending::UpgradeClaim(a) | Pending::UpgradeDrain(a) => Some(a),
    }
}

// ---- the mirror lock table: the only statement about parking_lot's RwLock that the scheduler relies on.
// `lock_litmus` runs these three functions side by side with the real lock on real threads.

/// May the step `p` of thread `tid` be taken in lock state `l` without the real call blocking?
pub fn lock_enabled(l: &LockState, tid: usize, p: Pending) -> bool {
    match p {
        Pending::Start | Pending::Resume => true,
        Pending::Read(_) => l.writer.is_none() && l.claim.is_none(),
        Pending::Upgradable(_) => l.writer.is_none() && l.claim.is_none() && l.upgradable.is_none(),
        Pending::WriteClaim(_) => l.writer.is_none() && l.claim.is_none() && l.upgradable.is_none(),
        Pending::WriteDrain(_) | Pending::UpgradeDrain(_) => l.readers.iter().all(|t| *t == tid),
        Pending::UpgradeClaim(_) => l.writer.is_none() && l.claim.is_none(),
    }
}

pub fn lock_apply(l: &mut LockState, tid: usize, p: Pending) {
    match p {
        Pending::Start | Pending::Resume => {}
        Pending::Read(_) => l.readers.push(tid),
        Pending::Upgradable(_) => l.upgradable = Some(tid),
        Pending::WriteClaim(_) => {
            if l.readers.is_empty() {
                l.writer = Some(tid);
            } else {
                l.claim = Some(tid);
            }
        }
        Pending::UpgradeClaim(_) => {
            if l.readers.is_empty() {
                l.upgradable = None;
                l.writer = Some(tid);
            } else {
                l.claim = Some(tid);
            }
        }
        Pending::WriteDrain(_) => {
            l.claim = None;
            l.writer = Some(tid);
        }
        Pending::UpgradeDrain(_) => {
            l.claim = None;
            l.upgradable = None;
            l.writer = Some(tid);
        }
    }
}

pub fn lock_release(l: &mut LockState, tid: usize, op: LockOp) {
    match op {
        LockOp::ReleaseRead => {
            if let Some(i) = l.readers.iter().position(|t| *t == tid) {
                l.readers.remove(i);
            }
        }
        LockOp::ReleaseUpgradable => {
            if l.upgradable == Some(tid) {
                l.upgradable = None;
            }
        }
        LockOp::ReleaseWrite => {
            if l.writer == Some(tid) {
                l.writer = None;
            }
        }
        _ => {}
    }
}

type Job = Box<dyn FnOnce() + Send + 'static>;

struct Worker {
    tx: std::sync::mpsc::Sender<Job>,
}

impl Worker {
    fn new() -> Self {
        let (tx, rx) = std::sync::mpsc::channel::<Job>();
        std::thread::Builder::new()
            .name("coop-worker".into())
            .spawn(move || {
                while let Ok(job) = rx.recv() {
                    job();
                }
            })
            .unwrap_or_else(|e| machinery_failure(&format!("coop: cannot spawn worker: {}", e)));
        Worker { tx }
    }
}

thread_local! {
    static POOL: std::cell::RefCell<Vec<Worker>> = const { std::cell::RefCell::new(Vec::new()) };
}

pub struct ExecResult {
    pub choices: Vec<Choice>,
    pub deadlock: Option<String>,
    pub inversion: Option<String>,
    pub points: u64,
    pub preemptions: usize,
}

/// Runs `bodies` (one closure per program thread) under the controlled scheduler with the forced choice
/// prefix, then the default policy. Thread bodies receive `(tid, &Shared)`; they are started and joined here.
pub fn run_once(
    bodies: Vec<Box<dyn FnOnce(usize, Arc<Shared>) + Send + 'static>>,
    shard_locks: HashSet<usize>,
    shared_pred: Box<dyn Fn(usize) -> bool + Send>,
    prefix: &[usize],
) -> ExecResult {
    let n = bodies.len();
    let sh = Arc::new(Shared {
        ctl: Mutex::new(Ctl {
            n,
            pending: vec![None; n],
            finished: vec![false; n],
            running: None,
            granted: None,
            locks: HashMap::new(),
            shared: shared_pred,
            shard_locks,
            held: vec![Vec::new(); n],
            inversion: None,
            foreign_touch: None,
            private_owner: HashMap::new(),
            seq: 0,
            points: 0,
            prefix: prefix.to_vec(),
            choices: Vec::new(),
            prev: None,
            preemptions: 0,
            deadlock: None,
            diverged: None,
            done: false,
        }),
        cv: Condvar::new(),
        tcv: (0..n).map(|_| Condvar::new()).collect(),
    });
    // program threads come from a per-explorer pool: creating and destroying OS threads for every schedule
    // serialises all explorers on the process's address-space lock
    let workers: Vec<Worker> = POOL.with(|p| {
        let mut p = p.borrow_mut();
        while p.len() < n {
            p.push(Worker::new());
        }
        p.drain(..n).collect()
    });
    for (tid, body) in bodies.into_iter().enumerate() {
        let sh2 = sh.clone();
        let job: Job = Box::new(move || {
            let sh3 = sh2.clone();
            set_thread_lock_handler(Some(Box::new(move |addr, _ty, op| {
                sh3.on_lock_event(tid, addr, op);
            })));
            sh2.point(tid, Pending::Start);
            let r = std::panic::catch_unwind(std::panic::AssertUnwindSafe(|| body(tid, sh2.clone())));
            set_thread_lock_handler(None);
            let mut g = sh2.ctl.lock().unwrap();
            if r.is_err() {
                g.foreign_touch = Some("a program thread panicked outside the operations".into());
            }
            g.finished[tid] = true;
            g.running = None;
            sh2.schedule(&mut g);
        });
        workers[tid].tx.send(job).unwrap_or_else(|_| machinery_failure("coop: worker thread gone"));
    }
    let mut leaked = false;
    // wait for completion (or deadlock / divergence)
    {
        let mut g = sh.ctl.lock().unwrap();
        while !g.done {
            let (g2, to) = sh.cv.wait_timeout(g, Duration::from_secs(20)).unwrap();
            g = g2;
            if to.timed_out() && !g.done {
                machinery_failure(&format!("coop: no progress for 20 s (uninstrumented blocking?); pending {:?} finished {:?}", g.pending, g.finished));
            }
        }
        if let Some(d) = &g.diverged {
            machinery_failure(&format!("coop: {}", d));
        }
        if let Some(f) = &g.foreign_touch {
            machinery_failure(&format!("coop: footprint classification violated / thread failure: {}", f));
        }
        leaked = g.deadlock.is_some();
    }
    if !leaked {
        POOL.with(|p| p.borrow_mut().extend(workers));
    } else {
        std::mem::forget(workers);
    }
    let g = sh.ctl.lock().unwrap();
    ExecResult { choices: g.choices.clone(), deadlock: g.deadlock.clone(), inversion: g.inversion.clone(), points: g.points, preemptions: g.preemptions }
}

pub struct ExploreStats {
    pub schedules: u64,
    pub points: u64,
    pub max_choice_points: usize,
    pub max_preemptions_seen: usize,
    pub cap_hit: bool,
    /// distinct outcome fingerprint -> minimal preemptions with which it was reached
    pub outcomes: BTreeMap<u64, usize>,
}

/// Stateless DFS with prefix replay. `run(prefix)` executes one schedule and returns (ExecResult, outcome fingerprint,
/// violation). `bound`: maximum number of preemptions (None = unbounded).
pub fn explore<F>(mut run: F, bound: Option<usize>, max_schedules: u64) -> (ExploreStats, Vec<(Vec<usize>, String, String)>)
where
    F: FnMut(&[usize]) -> (ExecResult, u64, Vec<(String, String)>),
{
    let mut stats = ExploreStats { schedules: 0, points: 0, max_choice_points: 0, max_preemptions_seen: 0, cap_hit: false, outcomes: BTreeMap::new() };
    let mut violations: Vec<(Vec<usize>, String, String)> = Vec::new();
    let mut seen_sigs: HashSet<String> = HashSet::new();
    let mut stack: Vec<Vec<usize>> = vec![Vec::new()];
    while let Some(prefix) = stack.pop() {
        if stats.schedules >= max_schedules {
            stats.cap_hit = true;
            break;
        }
        let (x, outcome, viols) = run(&prefix);
        stats.schedules += 1;
        stats.points += x.points;
        stats.max_choice_points = stats.max_choice_points.max(x.choices.len());
        stats.max_preemptions_seen = stats.max_preemptions_seen.max(x.preemptions);
        let e = stats.outcomes.entry(outcome).or_insert(x.preemptions);
        *e = (*e).min(x.preemptions);
        let full: Vec<usize> = x.choices.iter().map(|c| c.chosen).collect();
        for (sig, what) in viols {
            if seen_sigs.insert(sig.clone()) {
                violations.push((full.clone(), sig, what));
            }
        }
        if x.deadlock.is_some() {
            // threads were leaked; do not branch below a deadlocked execution's own suffix
        }
        // branch on every later point
        let mut cost = 0usize;
        for (i, c) in x.choices.iter().enumerate() {
            if i >= prefix.len() {
                for alt in &c.enabled {
                    if *alt == c.chosen {
                        continue;
                    }
                    let extra = if c.prev_enabled && Some(*alt) != c.prev { 1 } else { 0 };
                    if let Some(b) = bound {
                        if cost + extra > b {
                            continue;
                        }
                    }
                    let mut p: Vec<usize> = full[..i].to_vec();
                    p.push(*alt);
                    stack.push(p);
                }
            }
            if c.prev_enabled && Some(c.chosen) != c.prev {
                cost += 1;
            }
        }
    }
    (stats, violations)
}
