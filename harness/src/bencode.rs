//! Independent bencode encoder / decoder (canonical form enforced on decode).

use std::collections::BTreeMap;

#[derive(Clone, Debug, PartialEq, Eq)]
pub enum B {
    Int(i128),
    Bytes(Vec<u8>),
    List(Vec<B>),
    Dict(BTreeMap<Vec<u8>, B>),
}

impl B {
    pub fn dict(items: Vec<(&str, B)>) -> B {
        B::Dict(items.into_iter().map(|(k, v)| (k.as_bytes().to_vec(), v)).collect())
    }
    pub fn encode(&self, out: &mut Vec<u8>) {
        match self {
            B::Int(i) => {
                out.push(b'i');
                out.extend_from_slice(i.to_string().as_bytes());
                out.push(b'e');
            }
            B::Bytes(b) => {
                out.extend_from_slice(b.len().to_string().as_bytes());
                out.push(b':');
                out.extend_from_slice(b);
            }
            B::List(l) => {
                out.push(b'l');
                for x in l {
                    x.encode(out);
                }
                out.push(b'e');
            }
            B::Dict(d) => {
                out.push(b'd');
                // BTreeMap<Vec<u8>, _> iterates in raw byte order = canonical order
                for (k, v) in d {
                    B::Bytes(k.clone()).encode(out);
                    v.encode(out);
                }
                out.push(b'e');
            }
        }
    }
    pub fn to_bytes(&self) -> Vec<u8> {
        let mut v = Vec::new();
        self.encode(&mut v);
        v
    }
    pub fn get(&self, k: &str) -> Option<&B> {
        match self {
            B::Dict(d) => d.get(k.as_bytes()),
            _ => None,
        }
    }
    pub fn as_int(&self) -> Option<i128> {
        match self {
            B::Int(i) => Some(*i),
            _ => None,
        }
    }
    pub fn as_bytes(&self) -> Option<&[u8]> {
        match self {
            B::Bytes(b) => Some(b),
            _ => None,
        }
    }
}

/// Strict decoder: sorted, unique dict keys; no leading zeros / negative zero; no trailing bytes.
pub fn decode(input: &[u8]) -> Result<B, String> {
    let mut pos = 0;
    let v = dec(input, &mut pos, 0)?;
    if pos != input.len() {
        return Err(format!("{} trailing bytes after the value", input.len() - pos));
    }
    Ok(v)
}

fn dec(b: &[u8], pos: &mut usize, depth: usize) -> Result<B, String> {
    if depth > 64 {
        return Err("nesting too deep".into());
    }
    match b.get(*pos) {
        None => Err("unexpected end".into()),
        Some(b'i') => {
            *pos += 1;
            let end = b[*pos..].iter().position(|c| *c == b'e').ok_or("unterminated integer")? + *pos;
            let s = std::str::from_utf8(&b[*pos..end]).map_err(|_| "non-ascii integer")?;
            if s.is_empty() || s == "-" || s == "-0" || (s.len() > 1 && s.starts_with('0')) || s.starts_with("-0") || s.starts_with('+') {
                return Err(format!("non-canonical integer {:?}", s));
            }
            let i: i128 = s.parse().map_err(|_| format!("bad integer {:?}", s))?;
            *pos = end + 1;
            Ok(B::Int(i))
        }
        Some(b'l') => {
            *pos += 1;
            let mut l = Vec::new();
            loop {
                match b.get(*pos) {
                    None => return Err("unterminated list".into()),
                    Some(b'e') => {
                        *pos += 1;
                        return Ok(B::List(l));
                    }
                    _ => l.push(dec(b, pos, depth + 1)?),
                }
            }
        }
        Some(b'd') => {
            *pos += 1;
            let mut d = BTreeMap::new();
            let mut last: Option<Vec<u8>> = None;
            loop {
                match b.get(*pos) {
                    None => return Err("unterminated dict".into()),
                    Some(b'e') => {
                        *pos += 1;
                        return Ok(B::Dict(d));
                    }
                    _ => {
                        let k = match dec(b, pos, depth + 1)? {
                            B::Bytes(k) => k,
                            _ => return Err("dict key is not a byte string".into()),
                        };
                        if let Some(l) = &last {
                            if *l >= k {
                                return Err(format!("dict keys not sorted / not unique: {:?} then {:?}", String::from_utf8_lossy(l), String::from_utf8_lossy(&k)));
                            }
                        }
                        last = Some(k.clone());
                        let v = dec(b, pos, depth + 1)?;
                        d.insert(k, v);
                    }
                }
            }
        }
        Some(c) if c.is_ascii_digit() => {
            let colon = b[*pos..].iter().position(|c| *c == b':').ok_or("no colon in byte string")? + *pos;
            let s = std::str::from_utf8(&b[*pos..colon]).map_err(|_| "non-ascii length")?;
            if s.len() > 1 && s.starts_with('0') || !s.bytes().all(|c| c.is_ascii_digit()) {
                return Err(format!("non-canonical length {:?}", s));
            }
            let n: usize = s.parse().map_err(|_| "bad length")?;
            let start = colon + 1;
            if start + n > b.len() {
                return Err("byte string runs past the end".into());
            }
            *pos = start + n;
            Ok(B::Bytes(b[start..start + n].to_vec()))
        }
        Some(c) => Err(format!("unexpected byte {:#x} at {}", c, *pos)),
    }
}
