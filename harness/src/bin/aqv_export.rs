//! Child process for the crash-point enumeration of the UDP full-scrape export (C20).
//!
//! This executable defines `open64`, `openat64`, `write`, `rename` itself; the executable's definitions take
//! precedence over libc's, so Rust std's file I/O goes through them. While armed, every file-system-mutating
//! call is a step; the process `_exit`s immediately BEFORE step number `AQV_KILL_AT` (1-based).
//!
//! usage: aqv_export <dir> <torrents> <reader: 0|1>

use std::ffi::{c_char, c_int, c_void};
use std::net::{IpAddr, Ipv4Addr, Ipv6Addr, SocketAddr};
use std::sync::atomic::{AtomicBool, AtomicUsize, Ordering};

use aquatic_common::{CanonicalSocketAddr, SecondsSinceServerStart, ValidUntil};
use aquatic_udp::config::Config;
use aquatic_udp::swarm::TorrentMaps;
use aquatic_udp_protocol::*;

static ARMED: AtomicBool = AtomicBool::new(false);
static STEP: AtomicUsize = AtomicUsize::new(0);
static KILL_AT: AtomicUsize = AtomicUsize::new(0);

fn step(kind: &str) {
    if !ARMED.load(Ordering::SeqCst) {
        return;
    }
    let n = STEP.fetch_add(1, Ordering::SeqCst) + 1;
    if n == KILL_AT.load(Ordering::SeqCst) {
        let msg = format!("KILLED-BEFORE step={} kind={}\n", n, kind);
        unsafe {
            libc::syscall(libc::SYS_write, 1, msg.as_ptr(), msg.len());
            libc::_exit(9);
        }
    }
}

#[no_mangle]
pub unsafe extern "C" fn write(fd: c_int, buf: *const c_void, count: usize) -> isize {
    if fd > 2 {
        step("write");
    }
    libc::syscall(libc::SYS_write, fd, buf, count) as isize
}

#[no_mangle]
pub unsafe extern "C" fn open64(path: *const c_char, flags: c_int, mode: libc::mode_t) -> c_int {
    if flags & (libc::O_CREAT | libc::O_TRUNC | libc::O_WRONLY | libc::O_RDWR) != 0 {
        step("open");
    }
    libc::syscall(libc::SYS_openat, libc::AT_FDCWD, path, flags, mode as libc::c_uint) as c_int
}

#[no_mangle]
pub unsafe extern "C" fn open(path: *const c_char, flags: c_int, mode: libc::mode_t) -> c_int {
    open64(path, flags, mode)
}

#[no_mangle]
pub unsafe extern "C" fn openat64(dirfd: c_int, path: *const c_char, flags: c_int, mode: libc::mode_t) -> c_int {
    if flags & (libc::O_CREAT | libc::O_TRUNC | libc::O_WRONLY | libc::O_RDWR) != 0 {
        step("openat");
    }
    libc::syscall(libc::SYS_openat, dirfd, path, flags, mode as libc::c_uint) as c_int
}

#[no_mangle]
pub unsafe extern "C" fn rename(old: *const c_char, new: *const c_char) -> c_int {
    step("rename");
    libc::syscall(libc::SYS_renameat2, libc::AT_FDCWD, old, libc::AT_FDCWD, new, 0) as c_int
}

#[no_mangle]
pub unsafe extern "C" fn unlink(path: *const c_char) -> c_int {
    step("unlink");
    libc::syscall(libc::SYS_unlinkat, libc::AT_FDCWD, path, 0) as c_int
}

fn hash(i: usize) -> [u8; 20] {
    let mut h = [0u8; 20];
    h[0] = (i % 251) as u8;
    h[1..9].copy_from_slice(&(i as u64).to_be_bytes());
    h[19] = 0x77;
    h
}

fn main() {
    let a: Vec<String> = std::env::args().collect();
    let dir = std::path::PathBuf::from(&a[1]);
    let n: usize = a[2].parse().unwrap();
    let reader = a.get(3).map(|s| s == "1").unwrap_or(false);
    KILL_AT.store(std::env::var("AQV_KILL_AT").ok().and_then(|s| s.parse().ok()).unwrap_or(0), Ordering::SeqCst);

    let mut config = Config::default();
    config.scrape_exports.enable_scrape_exports = true;
    config.scrape_exports.frequency = 1;
    config.scrape_exports.path = dir.join("export.txt");
    let maps = TorrentMaps::default();
    let (tx, _rx) = crossbeam_channel::unbounded();
    let mut rng = <rand::rngs::SmallRng as rand::SeedableRng>::seed_from_u64(1);
    let vu = ValidUntil::new_with_now(SecondsSinceServerStart::new_raw(0), 1000);
    for i in 0..n {
        // torrent i: 1 + i % 3 seeders and i % 2 leechers, alternating families
        for p in 0..(1 + i % 3 + i % 2) {
            let v4 = i % 4 != 3;
            let ip: IpAddr = if v4 { IpAddr::V4(Ipv4Addr::new(10, 0, (p / 200) as u8, (p % 200) as u8 + 1)) } else { IpAddr::V6(Ipv6Addr::new(0xfd00, 0, 0, 0, 0, 0, 0, p as u16 + 1)) };
            let req = AnnounceRequest {
                connection_id: ConnectionId::new(0),
                action_placeholder: Default::default(),
                transaction_id: TransactionId::new(0),
                info_hash: InfoHash(hash(i)),
                peer_id: PeerId([1; 20]),
                bytes_downloaded: NumberOfBytes::new(0),
                bytes_left: NumberOfBytes::new(if p < 1 + i % 3 { 0 } else { 1 }),
                bytes_uploaded: NumberOfBytes::new(0),
                event: AnnounceEvent::Started.into(),
                ip_address: Ipv4AddrBytes([0; 4]),
                key: PeerKey::new(0),
                peers_wanted: NumberOfPeers::new(0),
                port: Port::new(std::num::NonZeroU16::new(1000).unwrap()),
            };
            maps.announce(&config, &tx, &mut rng, &req, CanonicalSocketAddr::new(SocketAddr::new(ip, 1)), vu);
        }
    }
    let stats = Default::default();
    let access = Default::default();
    let stop = std::sync::Arc::new(AtomicBool::new(false));
    let seen = std::sync::Arc::new(std::sync::Mutex::new(std::collections::BTreeSet::<Vec<u8>>::new()));
    let h = if reader {
        let (stop, seen, path) = (stop.clone(), seen.clone(), config.scrape_exports.path.clone());
        Some(std::thread::spawn(move || {
            while !stop.load(Ordering::SeqCst) {
                if let Ok(c) = std::fs::read(&path) {
                    seen.lock().unwrap().insert(c);
                }
            }
        }))
    } else {
        None
    };
    let rounds = if reader { 40 } else { 1 };
    for _ in 0..rounds {
        ARMED.store(true, Ordering::SeqCst);
        maps.clean_and_update_statistics(&config, &stats, &tx, &access, SecondsSinceServerStart::new_raw(1), true);
        ARMED.store(false, Ordering::SeqCst);
    }
    stop.store(true, Ordering::SeqCst);
    if let Some(h) = h {
        h.join().unwrap();
        let seen = seen.lock().unwrap();
        println!("READER-DISTINCT {}", seen.len());
        for (i, c) in seen.iter().enumerate() {
            std::fs::write(dir.join(format!("seen-{}.txt", i)), c).unwrap();
        }
    }
    println!("STEPS {}", STEP.load(Ordering::SeqCst) / rounds);
}
