//! The real UDP swarm storage (`aquatic_udp::swarm::TorrentMaps`) next to a
//! boring reference tracker, driven by small events. Used by C01, C10, C11,
//! C20 (seqmc) and as the sequential specification for C04.

use std::collections::{BTreeMap, BTreeSet};
use std::net::{IpAddr, Ipv4Addr, Ipv6Addr, SocketAddr};
use std::num::NonZeroU16;
use std::path::PathBuf;
use std::sync::atomic::Ordering;
use std::sync::Arc;

use aquatic_common::access_list::{AccessList, AccessListArcSwap, AccessListMode};
use aquatic_common::{CanonicalSocketAddr, SecondsSinceServerStart, ValidUntil};
use aquatic_udp::common::{CachePaddedArc, IpVersionStatistics, StatisticsMessage, SwarmWorkerStatistics};
use aquatic_udp::config::Config;
use aquatic_udp::swarm::TorrentMaps;
use aquatic_udp_protocol::*;
use crossbeam_channel::{Receiver, Sender};
use rand::prelude::SmallRng;
use rand::SeedableRng;
use serde::{Deserialize, Serialize};
use serde_json::json;

use crate::common::{fp128, fp64, Violation};

pub const NEVER: u8 = 255;
pub const PROBE_KEY: u8 = 200;

#[derive(Clone, Copy, Debug, Serialize, Deserialize, PartialEq, Eq, Hash, PartialOrd, Ord)]
pub enum Kind {
    /// left=5, event none
    Leech,
    /// left=0, event completed
    Seed,
    /// left=5, event started
    StartedLeech,
    /// left=0, event started
    StartedSeed,
    /// left=0, event none
    SeedNone,
    /// left=0, event stopped
    Stop0,
    /// left=5, event stopped
    Stop5,
    /// left=-1 (negative), event none: a leecher
    LeechNegative,
}

impl Kind {
    pub fn event(&self) -> AnnounceEvent {
        match self {
            Kind::Leech | Kind::SeedNone | Kind::LeechNegative => AnnounceEvent::None,
            Kind::Seed => AnnounceEvent::Completed,
            Kind::StartedLeech | Kind::StartedSeed => AnnounceEvent::Started,
            Kind::Stop0 | Kind::Stop5 => AnnounceEvent::Stopped,
        }
    }
    pub fn left(&self) -> i64 {
        match self {
            Kind::Leech | Kind::StartedLeech | Kind::Stop5 => 5,
            Kind::Seed | Kind::StartedSeed | Kind::SeedNone | Kind::Stop0 => 0,
            Kind::LeechNegative => -1,
        }
    }
    /// Reference semantics: None = stopped, Some(seeder)
    pub fn status(&self) -> Option<bool> {
        match self {
            Kind::Stop0 | Kind::Stop5 => None,
            k => Some(k.left() == 0),
        }
    }
}

#[derive(Clone, Debug, Serialize, Deserialize, PartialEq, Eq, Hash)]
pub enum Ev {
    Tick,
    Ann {
        v4: bool,
        h: u8,
        key: u8,
        kind: Kind,
        pid: u8,
        /// max peer age used for valid_until
        age: u32,
        /// the worker's time sample is `clock - lag`
        lag: u32,
        numwant: i32,
    },
    Scrape {
        v4: bool,
        hs: Vec<u8>,
    },
    Clean,
    /// Swap in access list number i (C11)
    Reload(u8),
}

pub fn hash_bytes(h: u8) -> [u8; 20] {
    // All in shard 0 (first byte multiple of 16), so torrents collide on a shard
    let mut b = [0u8; 20];
    if h == NEVER {
        b[0] = 0xf0;
        for x in b.iter_mut().skip(1) {
            *x = 0xee;
        }
    } else if (0x80..0xf0).contains(&h) {
        // 0x80..0xf0: torrents in the other shards (shard = h % 16), for programs whose operations span shards
        b[0] = h;
        for (i, x) in b.iter_mut().enumerate().skip(1) {
            *x = h.wrapping_mul(5).wrapping_add(i as u8);
        }
    } else {
        b[0] = h.wrapping_mul(16);
        for (i, x) in b.iter_mut().enumerate().skip(1) {
            *x = h.wrapping_add(1).wrapping_mul(i as u8 + 3);
        }
    }
    b
}

pub fn key_addr(v4: bool, key: u8) -> (IpAddr, u16) {
    // two ports per ip: same-ip-other-port and other-ip-same-port both occur
    let ipn = key / 2;
    let port = 1000 + (key % 2) as u16;
    let ip = if v4 {
        IpAddr::V4(Ipv4Addr::new(10, 0, 0, 1 + ipn))
    } else {
        IpAddr::V6(Ipv6Addr::new(0xfd00, 0, 0, 0, 0, 0, 0, 1 + ipn as u16))
    };
    (ip, port)
}

pub fn pid_bytes(pid: u8) -> [u8; 20] {
    // Distinct client prefixes so that rendered per-client rows identify peer ids
    let prefixes: [&[u8; 8]; 6] = [b"-TR2940-", b"-qB4250-", b"-DE13F0-", b"-UT3550-", b"-lt0D60-", b"-WW0102-"];
    let mut b = [0u8; 20];
    b[..8].copy_from_slice(prefixes[(pid as usize) % prefixes.len()]);
    for (i, x) in b.iter_mut().enumerate().skip(8) {
        *x = b'a' + ((pid as usize + i) % 26) as u8;
    }
    b[19] = pid;
    b
}

#[derive(Clone, Debug, PartialEq, Eq, Hash, PartialOrd, Ord)]
pub struct MEntry {
    pub seeder: bool,
    pub deadline: u32,
    pub pid: u8,
}

/// family, hash index -> key index -> entry
pub type Model = BTreeMap<(bool, u8), BTreeMap<u8, MEntry>>;

#[derive(Clone, Debug)]
pub struct WorldOpts {
    pub max_response_peers: usize,
    pub peer_clients: bool,
    pub stats_active: bool,
    pub export_dir: Option<PathBuf>,
    pub access_mode: AccessListMode,
    /// access lists selectable by `Ev::Reload` (hash indices); list 0 is loaded initially
    pub lists: Vec<Vec<u8>>,
    pub hashes: Vec<u8>,
    pub families: Vec<bool>,
    pub rng_seed: u64,
    /// the deployment in which IPv4 hosts are served through the IPv6 socket alone: `use_ipv4 = false`, `set_only_ipv6 = false`.
    /// IPv4-mapped sources are canonicalised to IPv4, so the IPv4 maps are in use although "IPv4 is off"
    pub v6_socket_serves_v4: bool,
}

impl Default for WorldOpts {
    fn default() -> Self {
        WorldOpts {
            max_response_peers: 100,
            peer_clients: false,
            stats_active: true,
            export_dir: None,
            access_mode: AccessListMode::Off,
            lists: vec![vec![]],
            hashes: vec![0],
            families: vec![true],
            rng_seed: 7,
            v6_socket_serves_v4: false,
        }
    }
}

pub struct UdpWorld {
    pub opts: WorldOpts,
    pub config: Config,
    pub maps: TorrentMaps,
    pub stats: CachePaddedArc<IpVersionStatistics<SwarmWorkerStatistics>>,
    pub tx: Sender<StatisticsMessage>,
    pub rx: Receiver<StatisticsMessage>,
    pub rng: SmallRng,
    pub access: Arc<AccessListArcSwap>,
    pub clock: u32,
    pub model: Model,
    pub model_list: u8,
    /// fold of PeerAdded / PeerRemoved exactly as run_statistics_worker does it
    pub tally: BTreeMap<[u8; 20], usize>,
    pub txid: i32,
}

pub use crate::seqmc::StepOut;

fn viol(sig: &str, what: String, ev: &Ev) -> Violation {
    Violation {
        signature: sig.to_string(),
        what,
        detail: json!({ "failing_event": ev }),
    }
}

impl UdpWorld {
    pub fn new(opts: WorldOpts) -> Self {
        let mut config = Config::default();
        config.protocol.max_response_peers = opts.max_response_peers;
        config.statistics.peer_clients = opts.peer_clients;
        config.statistics.print_to_stdout = opts.stats_active;
        config.access_list.mode = opts.access_mode;
        if opts.v6_socket_serves_v4 {
            config.network.use_ipv4 = false;
            config.network.use_ipv6 = true;
            config.network.set_only_ipv6 = false;
        }
        if let Some(d) = &opts.export_dir {
            config.scrape_exports.enable_scrape_exports = true;
            config.scrape_exports.frequency = 1;
            config.scrape_exports.path = d.join("export.txt");
        }
        let (tx, rx) = crossbeam_channel::unbounded();
        let w = UdpWorld {
            config,
            maps: TorrentMaps::default(),
            stats: Default::default(),
            tx,
            rx,
            rng: SmallRng::seed_from_u64(opts.rng_seed),
            access: Arc::new(AccessListArcSwap::default()),
            clock: 0,
            model: Model::new(),
            model_list: 0,
            tally: BTreeMap::new(),
            txid: 1,
            opts,
        };
        w.store_list(0);
        w
    }

    fn store_list(&self, i: u8) {
        let mut l = AccessList::default();
        for h in &self.opts.lists[i as usize] {
            l.insert_from_line(&hex::encode(hash_bytes(*h))).unwrap();
        }
        self.access.store(Arc::new(l));
    }

    pub fn model_allows(&self, h: u8) -> bool {
        let listed = self.opts.lists[self.model_list as usize].contains(&h);
        match self.opts.access_mode {
            AccessListMode::Allow => listed,
            AccessListMode::Deny => !listed,
            AccessListMode::Off => true,
        }
    }

    fn drain_stats(&mut self) {
        for m in self.rx.try_iter() {
            match m {
                StatisticsMessage::PeerAdded(p) => *self.tally.entry(p.0).or_insert(0) += 1,
                StatisticsMessage::PeerRemoved(p) => {
                    if let Some(c) = self.tally.get_mut(&p.0) {
                        *c -= 1;
                        if *c == 0 {
                            self.tally.remove(&p.0);
                        }
                    }
                }
                _ => {}
            }
        }
    }

    pub fn make_request(&mut self, h: u8, key: u8, kind: Kind, pid: u8, numwant: i32, v4: bool) -> (AnnounceRequest, CanonicalSocketAddr) {
        let (ip, port) = key_addr(v4, key);
        self.txid = self.txid.wrapping_add(1);
        let req = AnnounceRequest {
            connection_id: ConnectionId::new(0),
            action_placeholder: Default::default(),
            transaction_id: TransactionId::new(self.txid),
            info_hash: InfoHash(hash_bytes(h)),
            peer_id: PeerId(pid_bytes(pid)),
            bytes_downloaded: NumberOfBytes::new(0),
            bytes_left: NumberOfBytes::new(kind.left()),
            bytes_uploaded: NumberOfBytes::new(0),
            event: kind.event().into(),
            // in-request address field: must never matter
            ip_address: Ipv4AddrBytes([9, 9, 9, 9]),
            key: PeerKey::new(0),
            peers_wanted: NumberOfPeers::new(numwant),
            port: Port::new(NonZeroU16::new(port).unwrap()),
        };
        // the datagram source port is unrelated to the announced port
        (req, CanonicalSocketAddr::new(SocketAddr::new(ip, 40000)))
    }

    /// Apply an announce to the real storage only; returns (seeders, leechers, peers as (ip, port))
    pub fn real_announce(&mut self, h: u8, key: u8, kind: Kind, pid: u8, numwant: i32, v4: bool, valid_until: ValidUntil) -> Result<(i32, i32, Vec<(IpAddr, u16)>, i32), String> {
        let (req, src) = self.make_request(h, key, kind, pid, numwant, v4);
        let txid = req.transaction_id.0.get();
        let resp = self.maps.announce(&self.config, &self.tx, &mut self.rng, &req, src, valid_until);
        match (resp, v4) {
            (Response::AnnounceIpv4(r), true) => {
                if r.fixed.transaction_id.0.get() != txid {
                    return Err("transaction id not echoed".into());
                }
                Ok((
                    r.fixed.seeders.0.get(),
                    r.fixed.leechers.0.get(),
                    r.peers.iter().map(|p| { let (i, po) = (p.ip_address, p.port); (IpAddr::V4(i.into()), po.0.get()) }).collect(),
                    r.fixed.announce_interval.0.get(),
                ))
            }
            (Response::AnnounceIpv6(r), false) => {
                if r.fixed.transaction_id.0.get() != txid {
                    return Err("transaction id not echoed".into());
                }
                Ok((
                    r.fixed.seeders.0.get(),
                    r.fixed.leechers.0.get(),
                    r.peers.iter().map(|p| { let (i, po) = (p.ip_address, p.port); (IpAddr::V6(i.into()), po.0.get()) }).collect(),
                    r.fixed.announce_interval.0.get(),
                ))
            }
            (other, _) => Err(format!("reply of the wrong kind / family: {:?}", other)),
        }
    }

    pub fn real_scrape(&mut self, v4: bool, hs: &[u8]) -> Vec<(i32, i32)> {
        let (ip, _) = key_addr(v4, 0);
        let src = CanonicalSocketAddr::new(SocketAddr::new(ip, 40000));
        let req = ScrapeRequest {
            connection_id: ConnectionId::new(0),
            transaction_id: TransactionId::new(77),
            info_hashes: hs.iter().map(|h| InfoHash(hash_bytes(*h))).collect(),
        };
        let r = self.maps.scrape(req, src);
        r.torrent_stats.iter().map(|s| (s.seeders.0.get(), s.leechers.0.get())).collect()
    }

    pub fn model_counts(&self, v4: bool, h: u8, except: Option<u8>) -> (i32, i32) {
        let mut s = 0;
        let mut l = 0;
        if let Some(t) = self.model.get(&(v4, h)) {
            for (k, e) in t {
                if Some(*k) == except {
                    continue;
                }
                if e.seeder {
                    s += 1
                } else {
                    l += 1
                }
            }
        }
        (s, l)
    }

    pub fn model_members(&self, v4: bool, h: u8, except: Option<u8>) -> BTreeSet<(IpAddr, u16)> {
        self.model
            .get(&(v4, h))
            .map(|t| t.keys().filter(|k| Some(**k) != except).map(|k| key_addr(v4, *k)).collect())
            .unwrap_or_default()
    }

    pub fn apply(&mut self, ev: &Ev) -> StepOut {
        let mut v = Vec::new();
        let mut compared = 0;
        let outcome;
        match ev {
            Ev::Tick => {
                self.clock += 1;
                outcome = fp64(&("tick", self.clock));
            }
            Ev::Ann { v4, h, key, kind, pid, age, lag, numwant } => {
                let sample = self.clock.saturating_sub(*lag);
                let vu = ValidUntil::new_with_now(SecondsSinceServerStart::new_raw(sample), *age);
                compared += 1;
                let exp_counts = self.model_counts(*v4, *h, Some(*key));
                let others = self.model_members(*v4, *h, Some(*key));
                match self.real_announce(*h, *key, *kind, *pid, *numwant, *v4, vu) {
                    Err(e) => {
                        v.push(viol("udp/announce/reply-shape", e, ev));
                        outcome = 0;
                    }
                    Ok((s, l, peers, interval)) => {
                        outcome = fp64(&("ann", s, l, peers.len(), kind.status()));
                        if (s, l) != exp_counts {
                            v.push(viol(
                                "udp/announce/counts",
                                format!("announce reply counts (seeders, leechers) = {:?}, reference tracker says {:?}", (s, l), exp_counts),
                                ev,
                            ));
                        }
                        if interval != self.config.protocol.peer_announce_interval {
                            v.push(viol("udp/announce/interval", format!("interval {}", interval), ev));
                        }
                        let limit = if *numwant <= 0 { self.config.protocol.max_response_peers } else { (*numwant as usize).min(self.config.protocol.max_response_peers) };
                        if let Some(msg) = check_peer_list(&peers, &others, key_addr(*v4, *key), limit, 1) {
                            v.push(viol("udp/announce/peer-list", msg, ev));
                        }
                    }
                }
                // reference tracker update
                let t = self.model.entry((*v4, *h)).or_default();
                match kind.status() {
                    None => {
                        t.remove(key);
                    }
                    Some(seeder) => {
                        t.insert(*key, MEntry { seeder, deadline: sample + *age, pid: *pid });
                    }
                }
                if t.is_empty() {
                    self.model.remove(&(*v4, *h));
                }
            }
            Ev::Scrape { v4, hs } => {
                compared += 1;
                let got = self.real_scrape(*v4, hs);
                let exp: Vec<(i32, i32)> = hs.iter().map(|h| self.model_counts(*v4, *h, None)).collect();
                outcome = fp64(&("scrape", &got));
                if got != exp {
                    v.push(viol("udp/scrape/counts", format!("scrape reply {:?}, reference tracker says {:?}", got, exp), ev));
                }
            }
            Ev::Clean => {
                compared += 1;
                let export = self.opts.export_dir.is_some();
                if let Some(d) = &self.opts.export_dir {
                    let _ = std::fs::remove_file(d.join("export.txt"));
                }
                self.maps.clean_and_update_statistics(
                    &self.config,
                    &self.stats,
                    &self.tx,
                    &self.access,
                    SecondsSinceServerStart::new_raw(self.clock),
                    export,
                );
                // the export is written from the swarm as it is after expiry but
                // before access-list removal (documented in the config); model the same
                let now = self.clock;
                for t in self.model.values_mut() {
                    t.retain(|_, e| e.deadline > now);
                }
                self.model.retain(|_, t| !t.is_empty());
                let exp_export: BTreeSet<String> = self
                    .model
                    .iter()
                    .map(|((v4, h), t)| {
                        let s = t.values().filter(|e| e.seeder).count();
                        format!("{} {} {} {}", if *v4 { '4' } else { '6' }, hex::encode(hash_bytes(*h)), s, t.len() - s)
                    })
                    .collect();
                let allowed: Vec<(bool, u8)> = self.model.keys().filter(|(_, h)| self.model_allows(*h)).cloned().collect();
                self.model.retain(|k, _| allowed.contains(k));
                let mut o = vec![];
                if self.opts.stats_active {
                    let got = (
                        self.stats.ipv4.torrents.load(Ordering::SeqCst),
                        self.stats.ipv4.peers.load(Ordering::SeqCst),
                        self.stats.ipv6.torrents.load(Ordering::SeqCst),
                        self.stats.ipv6.peers.load(Ordering::SeqCst),
                    );
                    // peers are counted before forbidden torrents are removed,
                    // torrents after; compare peers only when nothing was forbidden
                    let exp_t4 = self.model.keys().filter(|(v4, _)| *v4).count();
                    let exp_t6 = self.model.keys().filter(|(v4, _)| !*v4).count();
                    if (got.0, got.2) != (exp_t4, exp_t6) {
                        v.push(viol("udp/clean/torrent-totals", format!("reported torrents (v4, v6) = {:?}, stored with peers: {:?}", (got.0, got.2), (exp_t4, exp_t6)), ev));
                    }
                    if self.opts.access_mode == AccessListMode::Off {
                        let exp_p4: usize = self.model.iter().filter(|((v4, _), _)| *v4).map(|(_, t)| t.len()).sum();
                        let exp_p6: usize = self.model.iter().filter(|((v4, _), _)| !*v4).map(|(_, t)| t.len()).sum();
                        if (got.1, got.3) != (exp_p4, exp_p6) {
                            v.push(viol("udp/clean/peer-totals", format!("reported peers (v4, v6) = {:?}, stored: {:?}", (got.1, got.3), (exp_p4, exp_p6)), ev));
                        }
                    }
                    o.push(got);
                }
                if let Some(d) = &self.opts.export_dir {
                    match std::fs::read_to_string(d.join("export.txt")) {
                        Err(e) => v.push(viol("udp/export/missing", format!("export file not readable after clean: {}", e), ev)),
                        Ok(s) => {
                            let lines: Vec<&str> = s.split_inclusive('\n').collect();
                            let mut got = BTreeSet::new();
                            let mut ok = true;
                            for l in &lines {
                                if !l.ends_with('\n') {
                                    ok = false;
                                }
                                got.insert(l.trim_end_matches('\n').to_string());
                            }
                            if !ok || got.len() != lines.len() || got != exp_export {
                                v.push(viol("udp/export/content", format!("export lines {:?}, expected {:?}", got, exp_export), ev));
                            }
                        }
                    }
                }
                // after a cleaning pass nothing empty or forbidden is stored any more
                let d = self.maps.verif_dump();
                for (fam, ts) in [(true, &d.ipv4), (false, &d.ipv6)] {
                    for t in ts {
                        if t.peers.is_empty() {
                            v.push(viol("udp/clean/empty-torrent-kept", format!("torrent {} (v4={}) has no peers but is still stored after a cleaning pass", hex::encode(t.info_hash), fam), ev));
                        }
                    }
                }
                outcome = fp64(&("clean", o, self.model.len()));
            }
            Ev::Reload(i) => {
                self.store_list(*i);
                self.model_list = *i;
                outcome = fp64(&("reload", i));
            }
        }
        self.drain_stats();
        if self.opts.peer_clients {
            if let Ev::Clean = ev {
                compared += 1;
                let mut exp: BTreeMap<[u8; 20], usize> = BTreeMap::new();
                for t in self.model.values() {
                    for e in t.values() {
                        *exp.entry(pid_bytes(e.pid)).or_insert(0) += 1;
                    }
                }
                if self.opts.access_mode == AccessListMode::Off && exp != self.tally {
                    let f = |m: &BTreeMap<[u8; 20], usize>| m.iter().map(|(k, c)| format!("pid{}:{}", k[19], c)).collect::<Vec<_>>();
                    v.push(viol(
                        "udp/tally/drift",
                        format!("per-client tally after cleaning pass {:?}, stored peers per peer id {:?}", f(&self.tally), f(&exp)),
                        ev,
                    ));
                }
            }
        }
        StepOut { outcome, violations: v, compared }
    }

    /// Canonical state key: reference model + implementation dump (storage order included) + clock + tally
    pub fn key(&self) -> u128 {
        let d = self.maps.verif_dump();
        let strip = |ts: &Vec<aquatic_udp::swarm::verif::TorrentDump>| -> Vec<_> {
            ts.iter().map(|t| (t.info_hash, t.large, t.cached_num_seeders, t.peers.clone())).collect()
        };
        fp128(&(&self.model, self.model_list, self.clock, strip(&d.ipv4), strip(&d.ipv6), &self.tally))
    }

    /// Internal consistency of the dump (cheap; turns silent counter drift into an immediate counterexample)
    pub fn invariants(&self) -> Vec<Violation> {
        let mut v = Vec::new();
        let d = self.maps.verif_dump();
        for ts in [&d.ipv4, &d.ipv6] {
            for t in ts {
                if let Some(c) = t.cached_num_seeders {
                    let real = t.peers.iter().filter(|p| p.is_seeder).count();
                    if c != real {
                        v.push(Violation { signature: "udp/invariant/cached-seeders".into(), what: format!("cached seeder counter {} but {} seeders stored in torrent {}", c, real, hex::encode(t.info_hash)), detail: json!({}) });
                    }
                }
                if !t.large && t.peers.len() > 2 {
                    v.push(Violation { signature: "udp/invariant/inline-capacity".into(), what: "inline map above capacity".into(), detail: json!({}) });
                }
                let keys: BTreeSet<_> = t.peers.iter().map(|p| (p.ip.clone(), p.port)).collect();
                if keys.len() != t.peers.len() {
                    v.push(Violation { signature: "udp/invariant/duplicate-key".into(), what: format!("two entries for one (ip, port) in torrent {}", hex::encode(t.info_hash)), detail: json!({}) });
                }
            }
        }
        v
    }

    /// Destructive observations; call only on a world that is thrown away afterwards.
    /// "The set of peers the tracker is able to hand out" + scrape of everything incl. a never-seen hash.
    pub fn probes(&mut self) -> (u64, Vec<Violation>, u64) {
        let mut v = Vec::new();
        let mut compared = 0;
        let mut fpv = Vec::new();
        let mut hs = self.opts.hashes.clone();
        hs.push(NEVER);
        for v4 in self.opts.families.clone() {
            compared += 1;
            let got = self.real_scrape(v4, &hs);
            let exp: Vec<(i32, i32)> = hs.iter().map(|h| self.model_counts(v4, *h, None)).collect();
            if got != exp {
                v.push(Violation { signature: "udp/probe/scrape".into(), what: format!("scrape of {:?} (v4={}) gives {:?}, reference tracker says {:?}", hs, v4, got, exp), detail: json!({}) });
            }
            fpv.push(fp64(&got));
            for h in hs.clone() {
                compared += 1;
                let vu = ValidUntil::new_with_now(SecondsSinceServerStart::new_raw(self.clock), 1);
                let exp_counts = self.model_counts(v4, h, None);
                let exp_members = self.model_members(v4, h, None);
                match self.real_announce(h, PROBE_KEY, Kind::Stop5, 0, 0, v4, vu) {
                    Err(e) => v.push(Violation { signature: "udp/probe/reply-shape".into(), what: e, detail: json!({}) }),
                    Ok((s, l, peers, _)) => {
                        let got_members: BTreeSet<(IpAddr, u16)> = peers.iter().cloned().collect();
                        if (s, l) != exp_counts || got_members != exp_members || got_members.len() != peers.len() {
                            v.push(Violation {
                                signature: "udp/probe/handout".into(),
                                what: format!(
                                    "full-list announce for torrent {} (v4={}) gives counts {:?} peers {:?}; reference tracker has counts {:?} members {:?}",
                                    h, v4, (s, l), peers, exp_counts, exp_members
                                ),
                                detail: json!({}),
                            });
                        }
                        fpv.push(fp64(&(s, l, got_members.len())));
                    }
                }
            }
        }
        self.drain_stats();
        (fp64(&fpv), v, compared)
    }
}

/// The C02 rule. `slack`: 1 for UDP/HTTP (at least limit-1), 0 for WS (exactly limit)
pub fn check_peer_list<T: Ord + Clone + std::fmt::Debug>(peers: &[T], others: &BTreeSet<T>, requester: T, limit: usize, slack: usize) -> Option<String> {
    let set: BTreeSet<T> = peers.iter().cloned().collect();
    if set.len() != peers.len() {
        return Some(format!("peer list contains duplicates: {:?}", peers));
    }
    if set.contains(&requester) {
        return Some(format!("peer list contains the requester {:?}: {:?}", requester, peers));
    }
    if let Some(p) = set.iter().find(|p| !others.contains(p)) {
        return Some(format!("peer {:?} is not a stored member of the torrent (members {:?})", p, others));
    }
    if peers.len() > limit {
        return Some(format!("{} peers returned, limit is {}", peers.len(), limit));
    }
    if others.len() <= limit {
        if set != *others {
            return Some(format!("torrent has {} other members (limit {}), all must be returned, got {:?}", others.len(), limit, peers));
        }
    } else if peers.len() + slack < limit {
        return Some(format!("{} peers returned with limit {} and {} other members", peers.len(), limit, others.len()));
    }
    None
}

impl crate::seqmc::World<Ev> for UdpWorld {
    fn apply(&mut self, ev: &Ev) -> StepOut {
        UdpWorld::apply(self, ev)
    }
    fn invariants(&self) -> Vec<Violation> {
        UdpWorld::invariants(self)
    }
    fn key(&self) -> u128 {
        UdpWorld::key(self)
    }
    fn probes(&mut self) -> (u64, Vec<Violation>, u64) {
        UdpWorld::probes(self)
    }
}

/// Alphabet shared by the UDP / HTTP explorers
#[derive(Clone, Debug)]
pub struct Alphabet {
    pub name: &'static str,
    pub opts: WorldOpts,
    pub keys: u8,
    pub kinds: Vec<Kind>,
    pub pids: Option<u8>,
    pub ages: Vec<u32>,
    pub lags: Vec<u32>,
    pub numwants: Vec<i32>,
    pub scrapes: Vec<Vec<u8>>,
    pub clock_max: u32,
    pub reloads: Vec<u8>,
    pub clean: bool,
}

impl Alphabet {
    pub fn events_at(&self, clock: u32) -> Vec<Ev> {
        let a = self;
        let mut evs = Vec::new();
        if clock < a.clock_max {
            evs.push(Ev::Tick);
        }
        if a.clean {
            evs.push(Ev::Clean);
        }
        for v4 in &a.opts.families {
            for s in &a.scrapes {
                evs.push(Ev::Scrape { v4: *v4, hs: s.clone() });
            }
        }
        for v4 in &a.opts.families {
            for h in &a.opts.hashes {
                for key in 0..a.keys {
                    for kind in &a.kinds {
                        for age in &a.ages {
                            for lag in &a.lags {
                                if *lag > clock {
                                    continue;
                                }
                                for nw in &a.numwants {
                                    match a.pids {
                                        None => evs.push(Ev::Ann { v4: *v4, h: *h, key, kind: *kind, pid: key, age: *age, lag: *lag, numwant: *nw }),
                                        Some(n) => {
                                            for pid in 0..n {
                                                evs.push(Ev::Ann { v4: *v4, h: *h, key, kind: *kind, pid, age: *age, lag: *lag, numwant: *nw });
                                            }
                                        }
                                    }
                                }
                            }
                        }
                    }
                }
            }
        }
        for r in &a.reloads {
            evs.push(Ev::Reload(*r));
        }
        evs
    }
}

thread_local! {
    static EXPORT_DIR: std::cell::RefCell<Option<tempfile::TempDir>> = const { std::cell::RefCell::new(None) };
}

pub fn thread_export_dir() -> PathBuf {
    EXPORT_DIR.with(|d| {
        let mut d = d.borrow_mut();
        if d.is_none() {
            let base = if std::path::Path::new("/dev/shm").is_dir() { "/dev/shm" } else { "/tmp" };
            *d = Some(tempfile::Builder::new().prefix("aqv-export-").tempdir_in(base).expect("tempdir"));
        }
        d.as_ref().unwrap().path().to_path_buf()
    })
}

pub struct UdpSys(pub Alphabet);

impl crate::seqmc::Sys<Ev> for UdpSys {
    type W = UdpWorld;
    fn name(&self) -> String {
        self.0.name.to_string()
    }
    fn tag(&self) -> &'static str {
        "seqmc-udp"
    }
    fn fresh(&self) -> UdpWorld {
        let mut o = self.0.opts.clone();
        if o.export_dir.is_some() {
            o.export_dir = Some(thread_export_dir());
        }
        UdpWorld::new(o)
    }
    fn events(&self, w: &UdpWorld) -> Vec<Ev> {
        self.0.events_at(w.clock)
    }
}
