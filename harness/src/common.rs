//! Run bookkeeping shared by every check: arguments, evidence, violations,
//! known findings, replay files.

use std::collections::BTreeMap;
use std::hash::{Hash, Hasher};
use std::path::PathBuf;
use std::time::Instant;

use serde_json::{json, Map, Value};

pub const VERIF_DIR: &str = "/verif";

#[derive(Clone, Copy, PartialEq, Eq, Debug)]
pub enum Tier {
    Quick,
    Thorough,
}

impl Tier {
    pub fn as_str(&self) -> &'static str {
        match self {
            Tier::Quick => "quick",
            Tier::Thorough => "thorough",
        }
    }
    pub fn thorough(&self) -> bool {
        *self == Tier::Thorough
    }
}

#[derive(Clone, Debug)]
pub struct Args {
    pub id: String,
    pub tier: Tier,
    pub seed: u64,
    pub replay: Option<PathBuf>,
    pub extra: Vec<String>,
}

pub fn parse_args() -> Args {
    let mut it = std::env::args().skip(1);
    let id = it.next().unwrap_or_else(|| machinery_failure("usage: aqv <ID> [--tier quick|thorough] [--replay path]"));
    let mut tier = match std::env::var("VERIF_TIER").ok().as_deref() {
        Some("thorough") => Tier::Thorough,
        _ => Tier::Quick,
    };
    let mut replay = None;
    let mut extra = Vec::new();

    while let Some(a) = it.next() {
        match a.as_str() {
            "--tier" => {
                tier = match it.next().as_deref() {
                    Some("quick") => Tier::Quick,
                    Some("thorough") => Tier::Thorough,
                    other => machinery_failure(&format!("bad tier {:?}", other)),
                }
            }
            "--replay" => replay = it.next().map(PathBuf::from),
            _ => extra.push(a),
        }
    }

    let seed = std::env::var("VERIF_SEED")
        .ok()
        .and_then(|s| s.parse().ok())
        .unwrap_or(0);

    Args {
        id,
        tier,
        seed,
        replay,
        extra,
    }
}

/// Exit 2: never a verdict
pub fn machinery_failure(msg: &str) -> ! {
    eprintln!("MACHINERY-FAILURE: {}", msg);
    println!("MACHINERY-FAILURE: {}", msg);
    std::process::exit(2);
}

#[derive(Clone, Debug)]
pub struct Violation {
    /// Narrow identification of what fails (matched against known_findings.json)
    pub signature: String,
    pub what: String,
    /// Everything needed to replay
    pub detail: Value,
}

pub struct Run {
    pub args: Args,
    pub id: String,
    pub level: &'static str,
    start: Instant,
    pub cov: Map<String, Value>,
    pub assumptions: Vec<String>,
    violations: BTreeMap<String, Violation>,
    violation_hits: BTreeMap<String, u64>,
    samples: Vec<Value>,
    max_samples: usize,
}

impl Run {
    /// Total number of violation reports so far (vacuity guards must not pre-empt a verdict that is already there)
    pub fn violation_hits(&self) -> u64 {
        self.violation_hits.values().sum()
    }

    pub fn new(args: &Args, level: &'static str) -> Self {
        Run {
            args: args.clone(),
            id: args.id.clone(),
            level,
            start: Instant::now(),
            cov: Map::new(),
            assumptions: Vec::new(),
            violations: BTreeMap::new(),
            violation_hits: BTreeMap::new(),
            samples: Vec::new(),
            max_samples: 12,
        }
    }

    pub fn tier(&self) -> Tier {
        self.args.tier
    }

    pub fn elapsed(&self) -> f64 {
        self.start.elapsed().as_secs_f64()
    }

    pub fn set(&mut self, k: &str, v: impl Into<Value>) {
        self.cov.insert(k.to_string(), v.into());
    }

    pub fn add(&mut self, k: &str, n: u64) {
        let cur = self.cov.get(k).and_then(|v| v.as_u64()).unwrap_or(0);
        self.cov.insert(k.to_string(), json!(cur + n));
    }

    pub fn get(&self, k: &str) -> u64 {
        self.cov.get(k).and_then(|v| v.as_u64()).unwrap_or(0)
    }

    pub fn assume(&mut self, s: &str) {
        if !self.assumptions.iter().any(|a| a == s) {
            self.assumptions.push(s.to_string());
        }
    }

    pub fn sample(&mut self, v: Value) {
        if self.samples.len() < self.max_samples {
            self.samples.push(v);
        }
    }

    pub fn want_sample(&self) -> bool {
        self.samples.len() < self.max_samples
    }

    /// Record a violation. Only the first one per signature is kept (checks
    /// enumerate simplest-first, so that is a smallest one).
    pub fn violation(&mut self, signature: impl Into<String>, what: impl Into<String>, detail: Value) {
        let signature = signature.into();
        *self.violation_hits.entry(signature.clone()).or_insert(0) += 1;
        if self.violations.len() >= 40 && !self.violations.contains_key(&signature) {
            return;
        }
        self.violations.entry(signature.clone()).or_insert(Violation {
            signature,
            what: what.into(),
            detail,
        });
    }

    pub fn num_violation_signatures(&self) -> usize {
        self.violations.len()
    }

    pub fn has_violation(&self, signature: &str) -> bool {
        self.violations.contains_key(signature)
    }

    /// Write evidence, print verdict lines, exit.
    pub fn finish(mut self) -> ! {
        let known = load_known_findings();
        let mut unlisted = 0;
        let mut known_hits = 0;

        std::fs::create_dir_all(format!("{}/replays", VERIF_DIR)).ok();

        let mut out_lines = Vec::new();

        for (sig, v) in self.violations.iter() {
            let listed = known
                .iter()
                .find(|k| k.property == self.id && k.status == "known" && k.signature == *sig);
            let hits = self.violation_hits.get(sig).copied().unwrap_or(1);

            if let Some(k) = listed {
                known_hits += 1;
                out_lines.push(format!(
                    "KNOWN-FINDING: property={} {} [signature={} hits={}]",
                    self.id, k.what, sig, hits
                ));
            } else {
                unlisted += 1;
                let path = format!("{}/replays/{}-{:016x}.json", VERIF_DIR, self.id, fp64(sig));
                let body = json!({
                    "property": self.id,
                    "signature": sig,
                    "what": v.what,
                    "hits": hits,
                    "detail": v.detail,
                    "replay_cmd": format!("./check {} --replay {}", self.id, path),
                });
                if let Err(e) = std::fs::write(&path, serde_json::to_string_pretty(&body).unwrap()) {
                    eprintln!("could not write replay file {}: {}", path, e);
                }
                eprintln!("violation: {} :: {}", sig, v.what);
                out_lines.push(format!("VIOLATION property={} replay={}", self.id, path));
            }
        }

        if self.samples.is_empty() {
            self.samples.push(json!("no sample recorded"));
        }

        let mut cov = self.cov.clone();
        cov.insert("samples".into(), Value::Array(self.samples.clone()));

        let evidence = json!({
            "property_id": self.id,
            "tier": self.args.tier.as_str(),
            "seed": self.args.seed,
            "level": self.level,
            "coverage": cov,
            "assumptions": self.assumptions,
            "wall_s": self.start.elapsed().as_secs_f64(),
            "violations": unlisted,
            "known_findings_reproduced": known_hits,
        });

        if self.args.replay.is_none() {
            // AQV_EVIDENCE_DIR: exploratory runs (deeper tiers, seeded changes) write elsewhere and leave the committed evidence alone
            let dir = std::env::var("AQV_EVIDENCE_DIR").unwrap_or_else(|_| format!("{}/evidence", VERIF_DIR));
            std::fs::create_dir_all(&dir).ok();
            let path = format!("{}/{}.json", dir, self.id);
            if let Err(e) = std::fs::write(&path, serde_json::to_string_pretty(&evidence).unwrap()) {
                machinery_failure(&format!("could not write {}: {}", path, e));
            }
        }

        for l in out_lines {
            println!("{}", l);
        }

        println!(
            "{} tier={} violations={} known={} wall_s={:.1}",
            self.id,
            self.args.tier.as_str(),
            unlisted,
            known_hits,
            self.start.elapsed().as_secs_f64()
        );

        std::process::exit(if unlisted > 0 { 1 } else { 0 });
    }
}

#[derive(Clone, Debug)]
pub struct KnownFinding {
    pub property: String,
    pub signature: String,
    pub status: String,
    pub what: String,
}

pub fn load_known_findings() -> Vec<KnownFinding> {
    let path = format!("{}/known_findings.json", VERIF_DIR);
    let Ok(s) = std::fs::read_to_string(&path) else {
        return Vec::new();
    };
    let v: Value = match serde_json::from_str(&s) {
        Ok(v) => v,
        Err(e) => machinery_failure(&format!("known_findings.json does not parse: {}", e)),
    };
    let mut out = Vec::new();
    if let Some(arr) = v.get("findings").and_then(|f| f.as_array()) {
        for f in arr {
            out.push(KnownFinding {
                property: f["property"].as_str().unwrap_or("").to_string(),
                signature: f["signature"].as_str().unwrap_or("").to_string(),
                status: f["status"].as_str().unwrap_or("known").to_string(),
                what: f["what"].as_str().unwrap_or("").to_string(),
            });
        }
    }
    out
}

pub fn load_replay(path: &std::path::Path) -> Value {
    let s = std::fs::read_to_string(path)
        .unwrap_or_else(|e| machinery_failure(&format!("cannot read replay {:?}: {}", path, e)));
    serde_json::from_str(&s).unwrap_or_else(|e| machinery_failure(&format!("replay does not parse: {}", e)))
}

pub fn fp64<T: Hash + ?Sized>(t: &T) -> u64 {
    let mut h = std::collections::hash_map::DefaultHasher::new();
    t.hash(&mut h);
    h.finish()
}

/// 128-bit fingerprint from two differently seeded SipHash runs
pub fn fp128<T: Hash + ?Sized>(t: &T) -> u128 {
    let mut h1 = std::collections::hash_map::DefaultHasher::new();
    0x1234_5678_u64.hash(&mut h1);
    t.hash(&mut h1);
    let mut h2 = std::collections::hash_map::DefaultHasher::new();
    0x9abc_def0_9abc_u64.hash(&mut h2);
    t.hash(&mut h2);
    0xffu8.hash(&mut h2);
    ((h1.finish() as u128) << 64) | h2.finish() as u128
}

pub fn hex20(b: &[u8; 20]) -> String {
    hex::encode(b)
}

/// Run f on items in parallel (scoped threads), results in input order.
pub fn par_map<T: Sync, R: Send, F: Fn(&T) -> R + Sync>(items: &[T], threads: usize, f: F) -> Vec<R> {
    if items.is_empty() {
        return Vec::new();
    }
    let threads = threads.max(1).min(items.len());
    if threads == 1 {
        return items.iter().map(&f).collect();
    }
    let next = std::sync::atomic::AtomicUsize::new(0);
    let chunk = ((items.len() + threads * 8 - 1) / (threads * 8)).max(1);
    let mut parts: Vec<Vec<(usize, R)>> = Vec::new();
    std::thread::scope(|s| {
        let mut hs = Vec::new();
        for _ in 0..threads {
            hs.push(s.spawn(|| {
                let mut local = Vec::new();
                loop {
                    let start = next.fetch_add(chunk, std::sync::atomic::Ordering::Relaxed);
                    if start >= items.len() {
                        break;
                    }
                    let end = (start + chunk).min(items.len());
                    for i in start..end {
                        local.push((i, f(&items[i])));
                    }
                }
                local
            }));
        }
        for h in hs {
            match h.join() {
                Ok(v) => parts.push(v),
                Err(e) => std::panic::resume_unwind(e),
            }
        }
    });
    let mut all: Vec<(usize, R)> = parts.into_iter().flatten().collect();
    all.sort_by_key(|(i, _)| *i);
    all.into_iter().map(|(_, r)| r).collect()
}

pub fn num_threads() -> usize {
    std::thread::available_parallelism().map(|n| n.get()).unwrap_or(4).min(16)
}

pub fn panic_message(e: &Box<dyn std::any::Any + Send>) -> String {
    if let Some(s) = e.downcast_ref::<&str>() {
        s.to_string()
    } else if let Some(s) = e.downcast_ref::<String>() {
        s.clone()
    } else {
        "non-string panic payload".to_string()
    }
}

/// Silence the default panic hook (we catch panics and report them ourselves)
pub fn quiet_panics() {
    std::panic::set_hook(Box::new(|_| {}));
}
