//! The real WebTorrent swarm storage (`aquatic_ws::workers::swarm::verif_storage::TorrentMaps`)
//! next to a reference tracker, plus a small model of the socket worker's per-connection
//! bookkeeping (`ConnectionCleanupData.announced_info_hashes` in connection.rs), which is
//! what feeds `handle_connection_closed`. Used by C08, C09, C10, C11.

use std::collections::{BTreeMap, BTreeSet};
use std::sync::Arc;

use aquatic_common::access_list::{AccessList, AccessListArcSwap, AccessListMode};
use aquatic_common::ServerStartInstant;
use aquatic_ws::common::{ConnectionId, ConsumerId, InMessageMeta, IpVersion, OutMessageMeta, PendingScrapeId};
use aquatic_ws::config::Config;
use aquatic_ws::workers::swarm::verif_storage::TorrentMaps;
use aquatic_ws_protocol::common::*;
use aquatic_ws_protocol::incoming::{AnnounceEvent, AnnounceRequest, AnnounceRequestOffer, ScrapeRequest, ScrapeRequestInfoHashes};
use aquatic_ws_protocol::outgoing::OutMessage;
use rand::prelude::SmallRng;
use rand::SeedableRng;
use serde::{Deserialize, Serialize};
use serde_json::json;

use crate::common::{fp128, fp64, Violation};
use crate::seqmc::{StepOut, Sys, World};
use crate::udp_sys::{hash_bytes, pid_bytes, NEVER};

#[derive(Clone, Copy, Debug, Serialize, Deserialize, PartialEq, Eq, Hash, PartialOrd, Ord)]
pub enum WsKind {
    /// event absent, left absent: leecher
    Leech,
    /// event started, left 5: leecher
    Leech5,
    /// event update, left 5
    Update5,
    /// event absent, left 0: seeder
    Seed,
    /// event completed, left 0: seeder
    SeedCompleted,
    /// event stopped, left absent
    Stop,
    /// event stopped, left 0
    Stop0,
}

impl WsKind {
    pub fn event(&self) -> Option<AnnounceEvent> {
        match self {
            WsKind::Leech | WsKind::Seed => None,
            WsKind::Leech5 => Some(AnnounceEvent::Started),
            WsKind::Update5 => Some(AnnounceEvent::Update),
            WsKind::SeedCompleted => Some(AnnounceEvent::Completed),
            WsKind::Stop | WsKind::Stop0 => Some(AnnounceEvent::Stopped),
        }
    }
    pub fn left(&self) -> Option<usize> {
        match self {
            WsKind::Leech | WsKind::Stop => None,
            WsKind::Leech5 | WsKind::Update5 => Some(5),
            WsKind::Seed | WsKind::SeedCompleted | WsKind::Stop0 => Some(0),
        }
    }
    /// None = stopped, Some(seeder)
    pub fn status(&self) -> Option<bool> {
        match self {
            WsKind::Stop | WsKind::Stop0 => None,
            k => Some(k.left() == Some(0)),
        }
    }
}

#[derive(Clone, Debug, Serialize, Deserialize, PartialEq, Eq, Hash)]
pub enum WsEv {
    Tick,
    Clean,
    Ann {
        conn: u8,
        peer: u8,
        h: u8,
        kind: WsKind,
        /// offer ids of the offers carried
        offers: Vec<u8>,
        /// (to peer, offer id)
        answer: Option<(u8, u8)>,
    },
    Scrape {
        conn: u8,
        hs: Option<Vec<u8>>,
    },
    Close {
        conn: u8,
    },
    Reload(u8),
}

pub const UNKNOWN_PEER: u8 = 99;

pub fn offer_id_bytes(o: u8) -> [u8; 20] {
    let mut b = [b'o'; 20];
    b[19] = o;
    b
}

#[derive(Clone, Debug, PartialEq, Eq, Hash, PartialOrd, Ord)]
pub struct WPeer {
    pub owner: u8,
    pub seeder: bool,
    pub deadline: u32,
    /// (answering peer, offer id) -> deadline
    pub expecting: BTreeMap<(u8, u8), u32>,
}

pub type WModel = BTreeMap<(bool, u8), BTreeMap<u8, WPeer>>;

#[derive(Clone, Debug)]
pub struct WsOpts {
    /// (socket worker / consumer id, slot key ffi, ipv4)
    pub conns: Vec<(u8, u64, bool)>,
    pub hashes: Vec<u8>,
    pub max_offers: usize,
    pub max_scrape: usize,
    pub max_peer_age: u32,
    pub max_offer_age: u32,
    pub access_mode: AccessListMode,
    pub lists: Vec<Vec<u8>>,
    /// apply the socket worker's access-list gate before the storage (C11)
    pub gate: bool,
}

pub const K1: u64 = (1 << 32) | 1;
pub const K2: u64 = (1 << 32) | 2;

impl Default for WsOpts {
    fn default() -> Self {
        WsOpts {
            conns: vec![(0, K1, true), (1, K1, true), (0, K2, true)],
            hashes: vec![0],
            max_offers: 10,
            max_scrape: 100,
            max_peer_age: 2,
            max_offer_age: 1,
            access_mode: AccessListMode::Off,
            lists: vec![vec![]],
            gate: false,
        }
    }
}

pub struct WsWorld {
    pub opts: WsOpts,
    pub config: Config,
    pub maps: TorrentMaps,
    pub rng: SmallRng,
    pub access: Arc<AccessListArcSwap>,
    pub start: ServerStartInstant,
    pub clock: u32,
    pub model: WModel,
    pub model_list: u8,
    /// socket-side model: conn -> hash -> peer id recorded
    pub recorded: BTreeMap<u8, BTreeMap<u8, u8>>,
    pub closed: BTreeSet<u8>,
    pub sdp_counter: u32,
}

fn viol(sig: &str, what: String, ev: &WsEv) -> Violation {
    Violation { signature: sig.to_string(), what, detail: json!({ "failing_event": ev }) }
}

fn conn_id(ffi: u64) -> ConnectionId {
    ConnectionId::from(slotmap::KeyData::from_ffi(ffi))
}

impl WsWorld {
    pub fn new(opts: WsOpts) -> Self {
        let mut config = Config::default();
        config.protocol.max_offers = opts.max_offers;
        config.protocol.max_scrape_torrents = opts.max_scrape;
        config.cleaning.max_peer_age = opts.max_peer_age;
        config.cleaning.max_offer_age = opts.max_offer_age;
        config.access_list.mode = opts.access_mode;
        let w = WsWorld {
            config,
            maps: TorrentMaps::new(0),
            rng: SmallRng::seed_from_u64(11),
            access: Arc::new(AccessListArcSwap::default()),
            start: ServerStartInstant::new(),
            clock: 0,
            model: WModel::new(),
            model_list: 0,
            recorded: BTreeMap::new(),
            closed: BTreeSet::new(),
            sdp_counter: 0,
            opts,
        };
        w.store_list(0);
        w
    }

    fn store_list(&self, i: u8) {
        let mut l = AccessList::default();
        for h in &self.opts.lists[i as usize] {
            l.insert_from_line(&hex::encode(hash_bytes(*h))).unwrap();
        }
        self.access.store(Arc::new(l));
    }

    fn model_allows(&self, h: u8) -> bool {
        let listed = self.opts.lists[self.model_list as usize].contains(&h);
        match self.opts.access_mode {
            AccessListMode::Allow => listed,
            AccessListMode::Deny => !listed,
            AccessListMode::Off => true,
        }
    }

    pub fn meta(&self, conn: u8, pending: Option<u8>) -> InMessageMeta {
        let (w, k, v4) = if conn == 250 { (9, (1 << 32) | 77, true) } else if conn == 251 { (9, (1 << 32) | 78, false) } else { self.opts.conns[conn as usize] };
        InMessageMeta {
            out_message_consumer_id: ConsumerId(w),
            connection_id: conn_id(k),
            ip_version: if v4 { IpVersion::V4 } else { IpVersion::V6 },
            pending_scrape_id: pending.map(PendingScrapeId),
        }
    }

    fn conn_of_meta(&self, m: &OutMessageMeta) -> Option<u8> {
        use slotmap::Key;
        let ffi = m.connection_id.data().as_ffi();
        self.opts.conns.iter().position(|(w, k, _)| *w == m.out_message_consumer_id.0 && *k == ffi).map(|i| i as u8)
    }

    fn v4_of(&self, conn: u8) -> bool {
        if conn == 250 {
            true
        } else if conn == 251 {
            false
        } else {
            self.opts.conns[conn as usize].2
        }
    }

    fn with_clock<R>(&mut self, f: impl FnOnce(&mut Self) -> R) -> R {
        aquatic_common::verif::set_thread_clock(Some(self.clock));
        let r = f(self);
        aquatic_common::verif::set_thread_clock(None);
        r
    }

    fn model_counts(&self, v4: bool, h: u8) -> (usize, usize) {
        match self.model.get(&(v4, h)) {
            None => (0, 0),
            Some(t) => {
                let s = t.values().filter(|p| p.seeder).count();
                (s, t.len() - s)
            }
        }
    }

    fn close_conn(&mut self, conn: u8) {
        // what ConnectionCleanupData::after_close sends, then what the reference tracker does
        let v4 = self.v4_of(conn);
        let rec = self.recorded.remove(&conn).unwrap_or_default();
        for (h, p) in rec {
            self.maps.handle_connection_closed(
                InfoHash(hash_bytes(h)),
                PeerId(pid_bytes(p)),
                if v4 { IpVersion::V4 } else { IpVersion::V6 },
                self.meta(conn, None).out_message_consumer_id,
                self.meta(conn, None).connection_id,
            );
            if let Some(t) = self.model.get_mut(&(v4, h)) {
                if t.get(&p).map(|e| e.owner) == Some(conn) {
                    t.remove(&p);
                }
                if t.is_empty() {
                    self.model.remove(&(v4, h));
                }
            }
        }
        self.closed.insert(conn);
    }

    fn scrape_check(&self, v4: bool, hs: &[u8], files: &BTreeMap<[u8; 20], (usize, usize)>, within_limit: bool) -> Option<String> {
        let considered: Vec<u8> = hs.iter().take(self.opts.max_scrape).cloned().collect();
        if files.len() > self.opts.max_scrape {
            return Some(format!("{} entries, limit {}", files.len(), self.opts.max_scrape));
        }
        for (hash, counts) in files {
            // which requested torrent is it
            match hs.iter().find(|h| hash_bytes(**h) == *hash) {
                None => return Some(format!("reply lists a torrent {} that was not requested", hex::encode(hash))),
                Some(h) => {
                    let exp = self.model_counts(v4, *h);
                    if *counts != exp {
                        return Some(format!("torrent {} listed with (complete, incomplete) = {:?}, reference tracker says {:?}", h, counts, exp));
                    }
                }
            }
        }
        if within_limit {
            for h in &considered {
                let exp = self.model_counts(v4, *h);
                if exp != (0, 0) && !files.contains_key(&hash_bytes(*h)) {
                    return Some(format!("requested torrent {} has stored peers {:?} but is missing from the reply", h, exp));
                }
            }
        }
        None
    }
}

fn files_of(m: &aquatic_ws_protocol::outgoing::ScrapeResponse) -> BTreeMap<[u8; 20], (usize, usize)> {
    m.files.iter().map(|(h, s)| (h.0, (s.complete, s.incomplete))).collect()
}

impl World<WsEv> for WsWorld {
    fn apply(&mut self, ev: &WsEv) -> StepOut {
        let mut v = Vec::new();
        let mut compared = 0;
        let mut outcome = 0;
        match ev {
            WsEv::Tick => {
                self.clock += 1;
                outcome = fp64(&("tick", self.clock));
            }
            WsEv::Reload(i) => {
                self.store_list(*i);
                self.model_list = *i;
                outcome = fp64(&("reload", i));
            }
            WsEv::Clean => {
                compared += 1;
                self.with_clock(|w| {
                    let (c, a, s) = (w.config.clone(), w.access.clone(), w.start);
                    w.maps.clean(&c, &a, s)
                });
                let now = self.clock;
                for t in self.model.values_mut() {
                    for p in t.values_mut() {
                        p.expecting.retain(|_, d| *d > now);
                    }
                    t.retain(|_, p| p.deadline > now);
                }
                self.model.retain(|_, t| !t.is_empty());
                let allowed: Vec<(bool, u8)> = self.model.keys().filter(|(_, h)| self.model_allows(*h)).cloned().collect();
                self.model.retain(|k, _| allowed.contains(k));
                outcome = fp64(&("clean", self.model.len()));
            }
            WsEv::Close { conn } => {
                compared += 1;
                self.close_conn(*conn);
                outcome = fp64(&("close", conn));
            }
            WsEv::Scrape { conn, hs } => {
                compared += 1;
                let v4 = self.v4_of(*conn);
                let meta = self.meta(*conn, Some(3));
                let req = ScrapeRequest {
                    action: ScrapeAction::Scrape,
                    info_hashes: hs.as_ref().map(|hs| {
                        if hs.len() == 1 {
                            ScrapeRequestInfoHashes::Single(InfoHash(hash_bytes(hs[0])))
                        } else {
                            ScrapeRequestInfoHashes::Multiple(hs.iter().map(|h| InfoHash(hash_bytes(*h))).collect())
                        }
                    }),
                };
                let mut out = Vec::new();
                let cfg = self.config.clone();
                self.maps.handle_scrape_request(&cfg, &mut out, meta, req);
                match hs {
                    None => {
                        if !out.is_empty() {
                            v.push(viol("ws/scrape/absent", format!("{} out-messages for a scrape without hashes at storage level", out.len()), ev));
                        }
                    }
                    Some(hs) => {
                        if out.len() != 1 {
                            v.push(viol("ws/scrape/reply-count", format!("{} out-messages for one scrape", out.len()), ev));
                        } else {
                            let (m, msg) = &out[0];
                            if self.conn_of_meta(m) != Some(*conn) || m.pending_scrape_id.map(|p| p.0) != Some(3) {
                                v.push(viol("ws/scrape/addressee", format!("scrape reply addressed to {:?}", m), ev));
                            }
                            match msg {
                                OutMessage::ScrapeResponse(r) => {
                                    let files = files_of(r);
                                    outcome = fp64(&("scrape", &files));
                                    if let Some(e) = self.scrape_check(v4, hs, &files, hs.len() <= self.opts.max_scrape) {
                                        v.push(viol("ws/scrape/reply", e, ev));
                                    }
                                }
                                other => v.push(viol("ws/scrape/kind", format!("unexpected out-message {:?}", other), ev)),
                            }
                        }
                    }
                }
            }
            WsEv::Ann { conn, peer, h, kind, offers, answer } => {
                compared += 1;
                let v4 = self.v4_of(*conn);
                // ---- socket worker: access-list gate (only when modelled) and one-peer-id-per-torrent rule
                if self.opts.gate && !self.model_allows(*h) {
                    // the real gate is exercised end to end by C11's netmc layer; at storage level the request never arrives
                    return StepOut { outcome: fp64(&"gated"), violations: v, compared: 0 };
                }
                let rec = self.recorded.entry(*conn).or_default();
                match rec.get(h) {
                    Some(p) if *p != *peer => {
                        // error reply + connection closed by the socket worker; the request never reaches the swarm worker
                        self.close_conn(*conn);
                        return StepOut { outcome: fp64(&("second-peer-id", conn)), violations: v, compared };
                    }
                    Some(_) => {}
                    None => {
                        rec.insert(*h, *peer);
                    }
                }
                if kind.status().is_none() {
                    rec.remove(h);
                }
                // ---- swarm worker
                let offer_msgs: Vec<AnnounceRequestOffer> = offers
                    .iter()
                    .map(|o| {
                        self.sdp_counter += 1;
                        AnnounceRequestOffer { offer: RtcOffer { t: RtcOfferType::Offer, sdp: format!("sdp-{}-{}", o, self.sdp_counter) }, offer_id: OfferId(offer_id_bytes(*o)) }
                    })
                    .collect();
                let req = AnnounceRequest {
                    action: AnnounceAction::Announce,
                    info_hash: InfoHash(hash_bytes(*h)),
                    peer_id: PeerId(pid_bytes(*peer)),
                    bytes_left: kind.left(),
                    event: kind.event(),
                    offers: if offers.is_empty() { None } else { Some(offer_msgs.clone()) },
                    numwant: if offers.is_empty() { None } else { Some(offers.len()) },
                    answer: answer.map(|_| RtcAnswer { t: RtcAnswerType::Answer, sdp: "answer-sdp".into() }),
                    answer_to_peer_id: answer.map(|(p, _)| PeerId(pid_bytes(p))),
                    answer_offer_id: answer.map(|(_, o)| OfferId(offer_id_bytes(o))),
                };
                let meta = self.meta(*conn, None);
                let mut out = Vec::new();
                self.with_clock(|w| {
                    let (c, s) = (w.config.clone(), w.start);
                    w.maps.handle_announce_request(&c, &mut w.rng, &mut out, s, meta, req)
                });

                // ---- reference tracker
                let owner_conflict = self.model.get(&(v4, *h)).and_then(|t| t.get(peer)).map(|e| e.owner != *conn).unwrap_or(false);
                if owner_conflict {
                    outcome = fp64(&("ignored", out.len()));
                    if !out.is_empty() {
                        v.push(viol(
                            "ws/ownership/answered",
                            format!("announce with peer id {} through connection {} (entry owned by another connection) produced {} out-message(s); it must be ignored without reply", peer, conn, out.len()),
                            ev,
                        ));
                    }
                } else {
                    let now = self.clock;
                    let t = self.model.entry((v4, *h)).or_default();
                    match kind.status() {
                        None => {
                            t.remove(peer);
                        }
                        Some(seeder) => {
                            let dl = now + self.opts.max_peer_age;
                            t.entry(*peer).and_modify(|e| { e.seeder = seeder; e.deadline = dl; }).or_insert(WPeer { owner: *conn, seeder, deadline: dl, expecting: BTreeMap::new() });
                        }
                    }
                    let others: BTreeMap<u8, u8> = t.iter().filter(|(p, _)| **p != *peer).map(|(p, e)| (*p, e.owner)).collect();
                    let stopped = kind.status().is_none();
                    let exp_offers = if stopped { 0 } else { offers.len().min(self.opts.max_offers).min(others.len()) };

                    let mut n_resp = 0;
                    let mut got_offers: Vec<(u8, u8)> = Vec::new(); // (receiver peer, offer id)
                    let mut got_answer = None;
                    let mut got_error = None;
                    for (m, msg) in &out {
                        match msg {
                            OutMessage::AnnounceResponse(r) => {
                                n_resp += 1;
                                let t = self.model.get(&(v4, *h));
                                let s = t.map(|t| t.values().filter(|p| p.seeder).count()).unwrap_or(0);
                                let l = t.map(|t| t.len()).unwrap_or(0) - s;
                                if (r.complete, r.incomplete) != (s, l) {
                                    v.push(viol("ws/announce/counts", format!("announce reply (complete, incomplete) = {:?}, reference tracker says {:?}", (r.complete, r.incomplete), (s, l)), ev));
                                }
                                if self.conn_of_meta(m) != Some(*conn) || m.pending_scrape_id.is_some() || r.info_hash.0 != hash_bytes(*h) || r.announce_interval != self.config.protocol.peer_announce_interval {
                                    v.push(viol("ws/announce/addressee", format!("announce reply addressed to {:?} / wrong torrent or interval", m), ev));
                                }
                            }
                            OutMessage::OfferOutMessage(o) => {
                                let i = got_offers.len();
                                let rc = self.conn_of_meta(m);
                                let receiver = rc.and_then(|rc| others.iter().find(|(_, owner)| **owner == rc).map(|(p, _)| *p));
                                match receiver {
                                    None => v.push(viol("ws/offer/receiver", format!("offer forwarded to {:?}, which is not the connection of another stored peer of this torrent", m), ev)),
                                    Some(r) => {
                                        // unique peer per connection and torrent? (socket rule) - if several, take by elimination
                                        let cands: Vec<u8> = others.iter().filter(|(_, owner)| Some(**owner) == rc).map(|(p, _)| *p).collect();
                                        let r = cands.iter().find(|c| !got_offers.iter().any(|(g, _)| g == *c)).cloned().unwrap_or(r);
                                        if i >= offers.len() || o.offer_id.0 != offer_id_bytes(offers[i]) || o.offer.sdp != offer_msgs[i].offer.sdp || o.peer_id.0 != pid_bytes(*peer) || o.info_hash.0 != hash_bytes(*h) {
                                            v.push(viol("ws/offer/content", format!("forwarded offer #{} does not carry the sender's peer id / torrent / offer id / sdp: {:?}", i, o), ev));
                                        }
                                        if got_offers.iter().any(|(g, _)| *g == r) {
                                            v.push(viol("ws/offer/duplicate-receiver", format!("two offers of one announce forwarded to the same peer {}", r), ev));
                                        }
                                        got_offers.push((r, if i < offers.len() { offers[i] } else { 255 }));
                                    }
                                }
                                if m.pending_scrape_id.is_some() {
                                    v.push(viol("ws/offer/meta", "offer carries a pending scrape id".into(), ev));
                                }
                            }
                            OutMessage::AnswerOutMessage(a) => got_answer = Some((self.conn_of_meta(m), a.clone())),
                            OutMessage::ErrorResponse(e) => got_error = Some((self.conn_of_meta(m), e.clone())),
                            OutMessage::ScrapeResponse(_) => v.push(viol("ws/announce/kind", "scrape response to an announce".into(), ev)),
                        }
                    }
                    if n_resp != 1 {
                        v.push(viol("ws/announce/reply-count", format!("{} announce replies for one non-ignored announce", n_resp), ev));
                    }
                    if got_offers.len() != exp_offers {
                        v.push(viol(
                            "ws/offer/count",
                            format!("{} offers forwarded; expected min(offers {}, max_offers {}, other peers {}){} = {}", got_offers.len(), offers.len(), self.opts.max_offers, others.len(), if stopped { " and none for stopped" } else { "" }, exp_offers),
                            ev,
                        ));
                    }
                    // the forwards create expectations at the sender
                    if let Some(e) = self.model.get_mut(&(v4, *h)).and_then(|t| t.get_mut(peer)) {
                        for (r, o) in &got_offers {
                            e.expecting.insert((*r, *o), now + self.opts.max_offer_age);
                        }
                    }
                    // answer
                    let mut exp_answer_to: Option<u8> = None; // connection
                    let mut exp_error = false;
                    if let (Some((to, oid)), false) = (answer, stopped) {
                        if let Some(rcv) = self.model.get_mut(&(v4, *h)).and_then(|t| t.get_mut(to)) {
                            if rcv.expecting.remove(&(*peer, *oid)).is_some() {
                                exp_answer_to = Some(rcv.owner);
                            } else {
                                exp_error = true;
                            }
                        }
                    }
                    match (&got_answer, exp_answer_to) {
                        (None, None) => {}
                        (Some((c, a)), Some(e)) => {
                            let (to, oid) = answer.unwrap();
                            let _ = to;
                            if *c != Some(e) || a.peer_id.0 != pid_bytes(*peer) || a.offer_id.0 != offer_id_bytes(oid) || a.info_hash.0 != hash_bytes(*h) || a.answer.sdp != "answer-sdp" {
                                v.push(viol("ws/answer/addressee", format!("answer forwarded to connection {:?} with {:?}; expected the offering peer's connection {}", c, a, e), ev));
                            }
                        }
                        (Some((c, _)), None) => v.push(viol(
                            "ws/answer/forwarded-without-offer",
                            format!("answer {:?} forwarded to connection {:?} although no unused, unexpired offer with that id from that peer to the answerer exists", answer, c),
                            ev,
                        )),
                        (None, Some(e)) => v.push(viol("ws/answer/not-forwarded", format!("answer {:?} matches a pending offer but was not forwarded to connection {}", answer, e), ev)),
                    }
                    match (&got_error, exp_error) {
                        (Some((c, _)), _) if *c != Some(*conn) => v.push(viol("ws/answer/error-addressee", format!("error reply sent to {:?}, not to the answerer", c), ev)),
                        (Some(_), false) => v.push(viol("ws/answer/unexpected-error", "error reply although none is called for".into(), ev)),
                        _ => {}
                    }
                    if self.model.get(&(v4, *h)).map(|t| t.is_empty()).unwrap_or(false) {
                        self.model.remove(&(v4, *h));
                    }
                    outcome = fp64(&("ann", kind.status(), got_offers.len(), got_answer.is_some(), got_error.is_some(), self.model_counts(v4, *h)));
                }
            }
        }
        StepOut { outcome, violations: v, compared }
    }

    fn invariants(&self) -> Vec<Violation> {
        let mut v = Vec::new();
        let d = self.maps.verif_dump();
        for ts in [&d.ipv4, &d.ipv6] {
            for t in ts {
                let real = t.peers.iter().filter(|p| p.seeder).count();
                if t.num_seeders != real {
                    v.push(Violation { signature: "ws/invariant/cached-seeders".into(), what: format!("cached seeder counter {} but {} seeders stored", t.num_seeders, real), detail: json!({}) });
                }
            }
        }
        v
    }

    fn key(&self) -> u128 {
        let d = self.maps.verif_dump();
        fp128(&(&self.model, self.model_list, self.clock, &self.recorded, &self.closed, &d))
    }

    fn probes(&mut self) -> (u64, Vec<Violation>, u64) {
        let mut v = Vec::new();
        let mut compared = 0;
        let mut fpv = Vec::new();
        let mut hs = self.opts.hashes.clone();
        hs.push(NEVER);
        let fams: BTreeSet<bool> = self.opts.conns.iter().map(|c| c.2).collect();
        let saved = self.opts.max_scrape;
        self.opts.max_scrape = 100;
        self.config.protocol.max_scrape_torrents = 100;
        for v4 in fams {
            compared += 1;
            let probe_conn = if v4 { 250 } else { 251 };
            let meta = self.meta(probe_conn, Some(1));
            let req = ScrapeRequest { action: ScrapeAction::Scrape, info_hashes: Some(ScrapeRequestInfoHashes::Multiple(hs.iter().map(|h| InfoHash(hash_bytes(*h))).collect())) };
            let mut out = Vec::new();
            let cfg = self.config.clone();
            self.maps.handle_scrape_request(&cfg, &mut out, meta, req);
            match out.first() {
                Some((_, OutMessage::ScrapeResponse(r))) if out.len() == 1 => {
                    let files = files_of(r);
                    if let Some(e) = self.scrape_check(v4, &hs, &files, true) {
                        v.push(Violation { signature: "ws/probe/scrape".into(), what: format!("scrape of every torrent (v4={}): {}", v4, e), detail: json!({}) });
                    }
                    let nz: Vec<_> = files.iter().filter(|(_, c)| **c != (0, 0)).collect();
                    fpv.push(fp64(&nz));
                }
                _ => v.push(Violation { signature: "ws/probe/scrape-shape".into(), what: "probe scrape did not produce exactly one scrape response".into(), detail: json!({}) }),
            }
        }
        self.opts.max_scrape = saved;
        self.config.protocol.max_scrape_torrents = saved;
        (fp64(&fpv), v, compared)
    }
}

#[derive(Clone, Debug)]
pub struct WsAlphabet {
    pub name: &'static str,
    pub opts: WsOpts,
    pub peers: u8,
    /// connection c only ever uses peer id c
    pub peer_is_conn: bool,
    pub kinds: Vec<WsKind>,
    /// offer-id lists an announce may carry
    pub offer_sets: Vec<Vec<u8>>,
    /// (to peer, offer id) an announce may carry
    pub answers: Vec<(u8, u8)>,
    pub scrapes: Vec<Option<Vec<u8>>>,
    pub clock_max: u32,
    pub clean: bool,
    pub closes: bool,
    pub reloads: Vec<u8>,
}

pub struct WsSys(pub WsAlphabet);

impl Sys<WsEv> for WsSys {
    type W = WsWorld;
    fn name(&self) -> String {
        self.0.name.to_string()
    }
    fn tag(&self) -> &'static str {
        "seqmc-ws"
    }
    fn fresh(&self) -> WsWorld {
        WsWorld::new(self.0.opts.clone())
    }
    fn events(&self, w: &WsWorld) -> Vec<WsEv> {
        let a = &self.0;
        let mut evs = Vec::new();
        if w.clock < a.clock_max {
            evs.push(WsEv::Tick);
        }
        if a.clean {
            evs.push(WsEv::Clean);
        }
        let conns: Vec<u8> = (0..a.opts.conns.len() as u8).filter(|c| !w.closed.contains(c)).collect();
        if a.closes {
            for c in &conns {
                evs.push(WsEv::Close { conn: *c });
            }
        }
        if let Some(c) = conns.first() {
            for s in &a.scrapes {
                evs.push(WsEv::Scrape { conn: *c, hs: s.clone() });
            }
        }
        let stop = a.kinds.iter().find(|k| k.status().is_none()).cloned();
        let live = a.kinds.iter().find(|k| k.status().is_some()).cloned();
        for c in &conns {
            for p in 0..a.peers {
                if a.peer_is_conn && p != *c {
                    continue;
                }
                for h in &a.opts.hashes {
                    for k in &a.kinds {
                        evs.push(WsEv::Ann { conn: *c, peer: p, h: *h, kind: *k, offers: vec![], answer: None });
                    }
                    // signalling rides on the first non-stopped kind; one offer set and one answer also ride on 'stopped'
                    if let Some(k) = live {
                        for os in &a.offer_sets {
                            evs.push(WsEv::Ann { conn: *c, peer: p, h: *h, kind: k, offers: os.clone(), answer: None });
                        }
                        for an in &a.answers {
                            evs.push(WsEv::Ann { conn: *c, peer: p, h: *h, kind: k, offers: vec![], answer: Some(*an) });
                        }
                        if let (Some(os), Some(an)) = (a.offer_sets.first(), a.answers.first()) {
                            evs.push(WsEv::Ann { conn: *c, peer: p, h: *h, kind: k, offers: os.clone(), answer: Some(*an) });
                        }
                    }
                    if let Some(k) = stop {
                        if let Some(os) = a.offer_sets.first() {
                            evs.push(WsEv::Ann { conn: *c, peer: p, h: *h, kind: k, offers: os.clone(), answer: None });
                        }
                        if let Some(an) = a.answers.first() {
                            evs.push(WsEv::Ann { conn: *c, peer: p, h: *h, kind: k, offers: vec![], answer: Some(*an) });
                        }
                    }
                }
            }
        }
        for r in &a.reloads {
            evs.push(WsEv::Reload(*r));
        }
        evs
    }
}
