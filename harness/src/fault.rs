//! Fault plans for `aqv serve` (C19): installed into aquatic_common::verif's probe registry.

use std::sync::atomic::{AtomicUsize, Ordering};
use std::sync::{Mutex, OnceLock};
use std::time::Instant;

static FIRED: OnceLock<Instant> = OnceLock::new();
static HITS: Mutex<Vec<(String, usize)>> = Mutex::new(Vec::new());
static COUNT: AtomicUsize = AtomicUsize::new(0);

pub fn fired_at() -> Option<Instant> {
    FIRED.get().cloned()
}

/// AQV_FAULT_PLAN = {"point": "<probe name>", "mode": "panic"|"return", "nth": k}
pub fn install_from_env() {
    let Ok(plan) = std::env::var("AQV_FAULT_PLAN") else { return };
    let v: serde_json::Value = serde_json::from_str(&plan).unwrap_or_default();
    let point = v["point"].as_str().unwrap_or("").to_string();
    let mode = v["mode"].as_str().unwrap_or("panic").to_string();
    let nth = v["nth"].as_u64().unwrap_or(1) as usize;
    let list = v["list"].as_bool().unwrap_or(false);
    aquatic_common::verif::set_probe_handler(Some(Box::new(move |name: &str| {
        if list {
            let mut h = HITS.lock().unwrap();
            if !h.iter().any(|(n, _)| n == name) {
                h.push((name.to_string(), 1));
                println!("PROBE-SEEN {}", name);
            }
        }
        if name != point {
            return false;
        }
        let k = COUNT.fetch_add(1, Ordering::SeqCst) + 1;
        if k != nth {
            return false;
        }
        let _ = FIRED.set(Instant::now());
        println!("FAULT-FIRED {} mode={} hit={}", name, mode, k);
        use std::io::Write;
        std::io::stdout().flush().ok();
        if mode == "panic" {
            panic!("injected fault at {}", name);
        }
        true
    })));
}
