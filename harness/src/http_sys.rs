//! The real HTTP swarm storage (`aquatic_http::verif_storage::TorrentMaps`) next to the
//! reference tracker. Same event type as the UDP world.

use std::collections::BTreeSet;
use std::net::{IpAddr, SocketAddr};
use std::sync::Arc;

use aquatic_common::access_list::{AccessList, AccessListArcSwap, AccessListMode};
use aquatic_common::{CanonicalSocketAddr, SecondsSinceServerStart, ServerStartInstant, ValidUntil};
use aquatic_http::config::Config;
use aquatic_http::verif_storage::TorrentMaps;
use aquatic_http_protocol::common::{AnnounceEvent, InfoHash, PeerId};
use aquatic_http_protocol::request::{AnnounceRequest, ScrapeRequest};
use rand::prelude::SmallRng;
use rand::SeedableRng;
use serde_json::json;

use crate::common::{fp128, fp64, Violation};
use crate::seqmc::{StepOut, Sys, World};
use crate::udp_sys::{check_peer_list, hash_bytes, key_addr, pid_bytes, Alphabet, Ev, Kind, MEntry, Model, WorldOpts, NEVER, PROBE_KEY};

pub struct HttpWorld {
    pub opts: WorldOpts,
    pub max_scrape: usize,
    pub order_free_key: bool,
    pub config: Config,
    pub maps: TorrentMaps,
    pub rng: SmallRng,
    pub access: Arc<AccessListArcSwap>,
    pub start: ServerStartInstant,
    pub clock: u32,
    pub model: Model,
    pub model_list: u8,
}

fn viol(sig: &str, what: String, ev: &Ev) -> Violation {
    Violation { signature: sig.to_string(), what, detail: json!({ "failing_event": ev }) }
}

fn http_event(k: Kind) -> AnnounceEvent {
    match k {
        Kind::Leech | Kind::SeedNone | Kind::LeechNegative => AnnounceEvent::Empty,
        Kind::Seed => AnnounceEvent::Completed,
        Kind::StartedLeech | Kind::StartedSeed => AnnounceEvent::Started,
        Kind::Stop0 | Kind::Stop5 => AnnounceEvent::Stopped,
    }
}

impl HttpWorld {
    pub fn new(opts: WorldOpts, max_scrape: usize, order_free_key: bool) -> Self {
        let mut config = Config::default();
        config.protocol.max_peers = opts.max_response_peers;
        config.protocol.max_scrape_torrents = max_scrape;
        config.access_list.mode = opts.access_mode;
        let w = HttpWorld {
            config,
            max_scrape,
            order_free_key,
            maps: TorrentMaps::new(0),
            rng: SmallRng::seed_from_u64(opts.rng_seed),
            access: Arc::new(AccessListArcSwap::default()),
            start: ServerStartInstant::new(),
            clock: 0,
            model: Model::new(),
            model_list: 0,
            opts,
        };
        w.store_list(0);
        w
    }

    fn store_list(&self, i: u8) {
        let mut l = AccessList::default();
        for h in &self.opts.lists[i as usize] {
            l.insert_from_line(&hex::encode(hash_bytes(*h))).unwrap();
        }
        self.access.store(Arc::new(l));
    }

    fn model_allows(&self, h: u8) -> bool {
        let listed = self.opts.lists[self.model_list as usize].contains(&h);
        match self.opts.access_mode {
            AccessListMode::Allow => listed,
            AccessListMode::Deny => !listed,
            AccessListMode::Off => true,
        }
    }

    pub fn real_announce(&mut self, h: u8, key: u8, kind: Kind, numwant: i32, v4: bool, vu: ValidUntil) -> Result<(usize, usize, Vec<(IpAddr, u16)>, usize), String> {
        let (ip, port) = key_addr(v4, key);
        let req = AnnounceRequest {
            info_hash: InfoHash(hash_bytes(h)),
            peer_id: PeerId(pid_bytes(key)),
            port,
            bytes_uploaded: 0,
            bytes_downloaded: 0,
            bytes_left: kind.left().max(0) as usize,
            event: http_event(kind),
            numwant: if numwant < 0 { None } else { Some(numwant as usize) },
            key: None,
        };
        let src = CanonicalSocketAddr::new(SocketAddr::new(ip, 40000));
        let r = self.maps.handle_announce_request(&self.config, &mut self.rng, vu, src, req);
        let peers: Vec<(IpAddr, u16)> = if v4 {
            if !r.peers6.0.is_empty() {
                return Err("IPv6 peers in reply to an IPv4 announce".into());
            }
            r.peers.0.iter().map(|p| (IpAddr::V4(p.ip_address), p.port)).collect()
        } else {
            if !r.peers.0.is_empty() {
                return Err("IPv4 peers in reply to an IPv6 announce".into());
            }
            r.peers6.0.iter().map(|p| (IpAddr::V6(p.ip_address), p.port)).collect()
        };
        Ok((r.complete, r.incomplete, peers, r.announce_interval))
    }

    pub fn real_scrape(&mut self, v4: bool, hs: &[u8]) -> Vec<([u8; 20], usize, usize)> {
        let (ip, _) = key_addr(v4, 0);
        let src = CanonicalSocketAddr::new(SocketAddr::new(ip, 40000));
        let req = ScrapeRequest { info_hashes: hs.iter().map(|h| InfoHash(hash_bytes(*h))).collect() };
        let r = self.maps.handle_scrape_request(&self.config, src, req);
        r.files.iter().map(|(h, s)| (h.0, s.complete, s.incomplete)).collect()
    }

    fn model_counts(&self, v4: bool, h: u8, except: Option<u8>) -> (usize, usize) {
        let mut s = 0;
        let mut l = 0;
        if let Some(t) = self.model.get(&(v4, h)) {
            for (k, e) in t {
                if Some(*k) == except {
                    continue;
                }
                if e.seeder {
                    s += 1
                } else {
                    l += 1
                }
            }
        }
        (s, l)
    }

    fn model_members(&self, v4: bool, h: u8, except: Option<u8>) -> BTreeSet<(IpAddr, u16)> {
        self.model.get(&(v4, h)).map(|t| t.keys().filter(|k| Some(**k) != except).map(|k| key_addr(v4, *k)).collect()).unwrap_or_default()
    }

    fn model_scrape(&self, v4: bool, hs: &[u8]) -> Vec<([u8; 20], usize, usize)> {
        // each of the first max_scrape_torrents requested torrents once, zeros for unknown ones; keyed (sorted) by hash
        let mut m = std::collections::BTreeMap::new();
        for h in hs.iter().take(self.max_scrape) {
            let (s, l) = self.model_counts(v4, *h, None);
            m.insert(hash_bytes(*h), (s, l));
        }
        m.into_iter().map(|(h, (s, l))| (h, s, l)).collect()
    }
}

impl World<Ev> for HttpWorld {
    fn apply(&mut self, ev: &Ev) -> StepOut {
        let mut v = Vec::new();
        let mut compared = 0;
        let outcome;
        match ev {
            Ev::Tick => {
                self.clock += 1;
                outcome = fp64(&("tick", self.clock));
            }
            Ev::Ann { v4, h, key, kind, age, lag, numwant, .. } => {
                let sample = self.clock.saturating_sub(*lag);
                let vu = ValidUntil::new_with_now(SecondsSinceServerStart::new_raw(sample), *age);
                compared += 1;
                let exp_counts = self.model_counts(*v4, *h, Some(*key));
                let others = self.model_members(*v4, *h, Some(*key));
                match self.real_announce(*h, *key, *kind, *numwant, *v4, vu) {
                    Err(e) => {
                        v.push(viol("http/announce/reply-shape", e, ev));
                        outcome = 0;
                    }
                    Ok((s, l, peers, interval)) => {
                        outcome = fp64(&("ann", s, l, peers.len(), kind.status()));
                        if (s, l) != exp_counts {
                            v.push(viol("http/announce/counts", format!("announce reply (complete, incomplete) = {:?}, reference tracker says {:?}", (s, l), exp_counts), ev));
                        }
                        if interval != self.config.protocol.peer_announce_interval {
                            v.push(viol("http/announce/interval", format!("interval {}", interval), ev));
                        }
                        let limit = if *numwant <= 0 { self.config.protocol.max_peers } else { (*numwant as usize).min(self.config.protocol.max_peers) };
                        if let Some(msg) = check_peer_list(&peers, &others, key_addr(*v4, *key), limit, 1) {
                            v.push(viol("http/announce/peer-list", msg, ev));
                        }
                    }
                }
                let t = self.model.entry((*v4, *h)).or_default();
                match kind.status() {
                    None => {
                        t.remove(key);
                    }
                    Some(seeder) => {
                        t.insert(*key, MEntry { seeder, deadline: sample + *age, pid: *key });
                    }
                }
                if t.is_empty() {
                    self.model.remove(&(*v4, *h));
                }
            }
            Ev::Scrape { v4, hs } => {
                compared += 1;
                let got = self.real_scrape(*v4, hs);
                let exp = self.model_scrape(*v4, hs);
                outcome = fp64(&("scrape", &got));
                if got != exp {
                    let f = |x: &Vec<([u8; 20], usize, usize)>| x.iter().map(|(h, s, l)| format!("{}..:{}/{}", hex::encode(&h[..2]), s, l)).collect::<Vec<_>>();
                    v.push(viol("http/scrape/reply", format!("scrape reply {:?}, reference tracker says {:?}", f(&got), f(&exp)), ev));
                }
            }
            Ev::Clean => {
                compared += 1;
                aquatic_common::verif::set_thread_clock(Some(self.clock));
                self.maps.clean(&self.config, &self.access, self.start);
                aquatic_common::verif::set_thread_clock(None);
                let now = self.clock;
                for t in self.model.values_mut() {
                    t.retain(|_, e| e.deadline > now);
                }
                self.model.retain(|_, t| !t.is_empty());
                let allowed: Vec<(bool, u8)> = self.model.keys().filter(|(_, h)| self.model_allows(*h)).cloned().collect();
                self.model.retain(|k, _| allowed.contains(k));
                // a torrent without peers is dropped by the next cleaning pass
                let d = self.maps.verif_dump();
                let stored: usize = d.ipv4.len() + d.ipv6.len();
                if stored != self.model.len() {
                    v.push(viol(
                        "http/clean/torrent-count",
                        format!("{} torrents stored after a cleaning pass, reference tracker has {} with peers", stored, self.model.len()),
                        ev,
                    ));
                }
                outcome = fp64(&("clean", stored));
            }
            Ev::Reload(i) => {
                self.store_list(*i);
                self.model_list = *i;
                outcome = fp64(&("reload", i));
            }
        }
        StepOut { outcome, violations: v, compared }
    }

    fn invariants(&self) -> Vec<Violation> {
        let mut v = Vec::new();
        let d = self.maps.verif_dump();
        for ts in [&d.ipv4, &d.ipv6] {
            for t in ts {
                if let Some(c) = t.cached_num_seeders {
                    let real = t.peers.iter().filter(|p| p.is_seeder).count();
                    if c != real {
                        v.push(Violation { signature: "http/invariant/cached-seeders".into(), what: format!("cached seeder counter {} but {} seeders stored", c, real), detail: json!({}) });
                    }
                }
                if !t.large && t.peers.len() > 4 {
                    v.push(Violation { signature: "http/invariant/inline-capacity".into(), what: "inline map above capacity".into(), detail: json!({}) });
                }
                let keys: BTreeSet<_> = t.peers.iter().map(|p| (p.ip, p.port)).collect();
                if keys.len() != t.peers.len() {
                    v.push(Violation { signature: "http/invariant/duplicate-key".into(), what: "two entries for one (ip, port)".into(), detail: json!({}) });
                }
            }
        }
        v
    }

    fn key(&self) -> u128 {
        let d = self.maps.verif_dump();
        if self.order_free_key {
            let f = |ts: &Vec<aquatic_http::verif_storage::verif::TorrentDump>| {
                let mut x: Vec<_> = ts
                    .iter()
                    .map(|t| {
                        let mut p = t.peers.clone();
                        p.sort();
                        (t.info_hash, t.large, t.cached_num_seeders, p)
                    })
                    .collect();
                x.sort();
                x
            };
            fp128(&(&self.model, self.model_list, self.clock, f(&d.ipv4), f(&d.ipv6)))
        } else {
            fp128(&(&self.model, self.model_list, self.clock, &d))
        }
    }

    fn probes(&mut self) -> (u64, Vec<Violation>, u64) {
        let mut v = Vec::new();
        let mut compared = 0;
        let mut fpv = Vec::new();
        let mut hs = self.opts.hashes.clone();
        hs.push(NEVER);
        let saved = self.max_scrape;
        self.max_scrape = 100;
        self.config.protocol.max_scrape_torrents = 100;
        for v4 in self.opts.families.clone() {
            compared += 1;
            let got = self.real_scrape(v4, &hs);
            let exp = self.model_scrape(v4, &hs);
            if got != exp {
                v.push(Violation { signature: "http/probe/scrape".into(), what: format!("scrape of {:?} (v4={}) gives {:?}, reference tracker says {:?}", hs, v4, got, exp), detail: json!({}) });
            }
            fpv.push(fp64(&got));
            for h in hs.clone() {
                compared += 1;
                let vu = ValidUntil::new_with_now(SecondsSinceServerStart::new_raw(self.clock), 1);
                let exp_counts = self.model_counts(v4, h, None);
                let exp_members = self.model_members(v4, h, None);
                match self.real_announce(h, PROBE_KEY, Kind::Stop5, 0, v4, vu) {
                    Err(e) => v.push(Violation { signature: "http/probe/reply-shape".into(), what: e, detail: json!({}) }),
                    Ok((s, l, peers, _)) => {
                        let got_members: BTreeSet<(IpAddr, u16)> = peers.iter().cloned().collect();
                        if (s, l) != exp_counts || got_members != exp_members || got_members.len() != peers.len() {
                            v.push(Violation {
                                signature: "http/probe/handout".into(),
                                what: format!(
                                    "full-list announce for torrent {} (v4={}) gives counts {:?} peers {:?}; reference tracker has counts {:?} members {:?}",
                                    h, v4, (s, l), peers, exp_counts, exp_members
                                ),
                                detail: json!({}),
                            });
                        }
                        fpv.push(fp64(&(s, l, got_members.len())));
                    }
                }
            }
        }
        self.max_scrape = saved;
        self.config.protocol.max_scrape_torrents = saved;
        (fp64(&fpv), v, compared)
    }
}

pub struct HttpSys {
    pub a: Alphabet,
    pub max_scrape: usize,
    pub order_free_key: bool,
}

impl Sys<Ev> for HttpSys {
    type W = HttpWorld;
    fn name(&self) -> String {
        self.a.name.to_string()
    }
    fn tag(&self) -> &'static str {
        "seqmc-http"
    }
    fn fresh(&self) -> HttpWorld {
        HttpWorld::new(self.a.opts.clone(), self.max_scrape, self.order_free_key)
    }
    fn events(&self, w: &HttpWorld) -> Vec<Ev> {
        self.a.events_at(w.clock)
    }
}
