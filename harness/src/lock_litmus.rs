//! lock_litmus: conformance of the mirror lock table with the real lock.
//!
//! The coop scheduler never lets a thread enter a real `RwLock` call that could block; whether a call
//! could block is decided by `coop::lock_enabled / lock_apply / lock_release`. Those three functions are
//! the one statement about parking_lot that C04 relies on. Here they run side by side with the real lock
//! type of `aquatic_udp::swarm` (hook H3 wrapper around `parking_lot::RwLock`, no handler installed, so it
//! is the plain lock) on real, free-running threads:
//!
//! * a state of the model is (lock state, per thread: what it holds, which step of which call it is blocked in);
//! * breadth-first search over command sequences (read / upgradable read / write / upgrade / release issued to
//!   a thread that is not blocked), deduplicated on the model state, until no new state appears;
//! * every transition is executed from scratch on a fresh real lock with fresh threads. After each command
//!   the set of calls that return on the real lock must be exactly the set the model lets complete: a call the
//!   model blocks must still be blocked after `neg_wait`, a call the model enables must return within `pos_wait`.
//!
//! A discrepancy that reproduces with ten times longer waits means the scheduler's picture of the lock is wrong:
//! that is a machinery failure (exit 2), never a verdict about the tracker.

use std::collections::{HashSet, VecDeque};
use std::sync::mpsc;
use std::time::Duration;

use aquatic_common::verif::LockOp;
use aquatic_udp::verif_sync::{RwLock, RwLockReadGuard, RwLockUpgradableReadGuard, RwLockWriteGuard};

use crate::common::par_map;
use crate::coop::{lock_apply, lock_enabled, lock_release, LockState, Pending};

#[derive(Clone, Copy, Debug, PartialEq, Eq, Hash, PartialOrd, Ord)]
pub enum Cmd {
    Read,
    Upgradable,
    Write,
    Upgrade,
    Release,
}

#[derive(Clone, Copy, Debug, PartialEq, Eq, Hash, PartialOrd, Ord)]
enum Holds {
    Nothing,
    Read,
    Upg,
    Write,
}

#[derive(Clone, Debug, PartialEq, Eq, Hash)]
struct MThread {
    holds: Holds,
    pending: Option<Pending>,
}

#[derive(Clone, Debug, PartialEq, Eq, Hash)]
pub struct Model {
    lock: LockState,
    th: Vec<MThread>,
}

impl Model {
    fn new(n: usize) -> Model {
        Model { lock: LockState::default(), th: vec![MThread { holds: Holds::Nothing, pending: None }; n] }
    }

    fn legal(&self, t: usize) -> Vec<Cmd> {
        if self.th[t].pending.is_some() {
            return vec![];
        }
        match self.th[t].holds {
            Holds::Nothing => vec![Cmd::Read, Cmd::Upgradable, Cmd::Write],
            Holds::Read => vec![Cmd::Release],
            Holds::Upg => vec![Cmd::Upgrade, Cmd::Release],
            Holds::Write => vec![Cmd::Release],
        }
    }

    fn issue(&mut self, t: usize, c: Cmd) {
        match c {
            Cmd::Release => {
                let op = match self.th[t].holds {
                    Holds::Read => LockOp::ReleaseRead,
                    Holds::Upg => LockOp::ReleaseUpgradable,
                    _ => LockOp::ReleaseWrite,
                };
                lock_release(&mut self.lock, t, op);
                self.th[t].holds = Holds::Nothing;
            }
            Cmd::Read => self.th[t].pending = Some(Pending::Read(0)),
            Cmd::Upgradable => self.th[t].pending = Some(Pending::Upgradable(0)),
            Cmd::Write => self.th[t].pending = Some(Pending::WriteClaim(0)),
            Cmd::Upgrade => self.th[t].pending = Some(Pending::UpgradeClaim(0)),
        }
    }

    /// Take every step of thread t's call that the table enables; true if the call returned
    fn advance(&mut self, t: usize) -> bool {
        while let Some(p) = self.th[t].pending {
            if !lock_enabled(&self.lock, t, p) {
                return false;
            }
            lock_apply(&mut self.lock, t, p);
            let (next, holds) = match p {
                Pending::Read(_) => (None, Holds::Read),
                Pending::Upgradable(_) => (None, Holds::Upg),
                Pending::WriteClaim(_) if self.lock.claim == Some(t) => (Some(Pending::WriteDrain(0)), Holds::Nothing),
                Pending::UpgradeClaim(_) if self.lock.claim == Some(t) => (Some(Pending::UpgradeDrain(0)), Holds::Upg),
                _ => (None, Holds::Write),
            };
            self.th[t].pending = next;
            if next.is_none() {
                self.th[t].holds = holds;
            }
        }
        true
    }

    fn can_complete(&self, t: usize) -> bool {
        self.th[t].pending.is_some() && self.clone().advance(t)
    }

    /// threads whose call can take a step (claim the writer bit) without being able to return
    fn claim_only(&self) -> Vec<usize> {
        (0..self.th.len())
            .filter(|&t| match self.th[t].pending {
                Some(p @ (Pending::WriteClaim(_) | Pending::UpgradeClaim(_))) => lock_enabled(&self.lock, t, p) && !self.can_complete(t),
                _ => false,
            })
            .collect()
    }

    fn canonical(&self) -> Model {
        let mut m = self.clone();
        m.lock.readers.sort();
        m
    }
}

enum Msg {
    Do(Cmd),
    Exit,
}

struct Real {
    txs: Vec<mpsc::Sender<Msg>>,
    done: mpsc::Receiver<usize>,
    joins: Vec<std::thread::JoinHandle<()>>,
}

impl Real {
    fn new(n: usize) -> Real {
        let lock: &'static RwLock<u32> = Box::leak(Box::new(RwLock::default()));
        let (dtx, drx) = mpsc::channel();
        let mut txs = Vec::new();
        let mut joins = Vec::new();
        for tid in 0..n {
            let (tx, rx) = mpsc::channel::<Msg>();
            let dtx = dtx.clone();
            txs.push(tx);
            joins.push(std::thread::spawn(move || {
                let mut r: Option<RwLockReadGuard<'static, u32>> = None;
                let mut u: Option<RwLockUpgradableReadGuard<'static, u32>> = None;
                let mut w: Option<RwLockWriteGuard<'static, u32>> = None;
                while let Ok(Msg::Do(c)) = rx.recv() {
                    match c {
                        Cmd::Read => r = Some(lock.read()),
                        Cmd::Upgradable => u = Some(lock.upgradable_read()),
                        Cmd::Write => w = Some(lock.write()),
                        Cmd::Upgrade => w = Some(RwLockUpgradableReadGuard::upgrade(u.take().unwrap())),
                        Cmd::Release => {
                            r = None;
                            u = None;
                            w = None;
                        }
                    }
                    let _ = dtx.send(tid);
                }
                drop((r, u, w));
            }));
        }
        Real { txs, done: drx, joins }
    }
}

#[derive(Debug, Clone)]
pub enum Outcome {
    State(Model),
    /// two calls could claim the writer bit and neither returns: which one did is not observable
    Ambiguous,
    Discrepancy(String),
}

#[derive(Clone, Copy)]
pub struct Waits {
    pub neg: Duration,
    pub pos: Duration,
}

/// Run one command sequence on a fresh real lock, in lock step with the model
pub fn run_sequence(n: usize, seq: &[(usize, Cmd)], w: Waits, blocked_observations: &mut u64) -> Outcome {
    let mut m = Model::new(n);
    let real = Real::new(n);
    let mut real_pending: HashSet<usize> = HashSet::new();
    let mut real_holds: Vec<bool> = vec![false; n];
    let mut outcome: Option<Outcome> = None;
    'seq: for (i, &(t, c)) in seq.iter().enumerate() {
        if !m.legal(t).contains(&c) {
            outcome = Some(Outcome::Discrepancy(format!("internal: step {} {:?} not legal", i, (t, c))));
            break;
        }
        m.issue(t, c);
        let _ = real.txs[t].send(Msg::Do(c));
        // completions that arrive while the acknowledgement of a release is awaited (a call the release unblocked may
        // report before the releasing thread does)
        let mut early: Vec<usize> = Vec::new();
        if c == Cmd::Release {
            // a release never blocks
            let mut acked = false;
            let t_ack = std::time::Instant::now();
            while t_ack.elapsed() < w.pos {
                match real.done.recv_timeout(w.pos) {
                    Ok(x) if x == t && !real_pending.contains(&t) => {
                        acked = true;
                        real_holds[t] = false;
                        break;
                    }
                    Ok(x) => early.push(x),
                    Err(_) => break,
                }
            }
            if !acked {
                outcome = Some(Outcome::Discrepancy(format!("step {}: release by thread {} not acknowledged", i, t)));
                break;
            }
        } else {
            real_pending.insert(t);
        }
        loop {
            let cand: Vec<usize> = (0..n).filter(|&x| m.can_complete(x)).collect();
            let claimers = m.claim_only();
            if cand.is_empty() {
                if claimers.len() > 1 {
                    outcome = Some(Outcome::Ambiguous);
                    break 'seq;
                }
                if let Some(&x) = claimers.first() {
                    m.advance(x);
                    continue;
                }
            }
            // The table enables alternatives (a call that would return, and a parked writer that would only claim the writer
            // bit); the real lock takes one of them (it wakes parked threads in arrival order). If nothing returns although a
            // call could, the unobservable alternative was taken: the observation has to fit *some* choice of the table.
            let wait = if cand.is_empty() || !claimers.is_empty() { w.neg } else { w.pos };
            let next = if early.is_empty() { real.done.recv_timeout(wait).map_err(|_| ()) } else { Ok(early.remove(0)) };
            if next.is_err() && !cand.is_empty() && !claimers.is_empty() {
                if claimers.len() > 1 {
                    outcome = Some(Outcome::Ambiguous);
                    break 'seq;
                }
                m.advance(claimers[0]);
                continue;
            }
            match next {
                Ok(x) => {
                    if !m.can_complete(x) {
                        outcome = Some(Outcome::Discrepancy(format!("after step {} {:?}: the real {:?} of thread {} returned, the model blocks it (model {:?})", i, (t, c), m.th[x].pending, x, m)));
                        real_pending.remove(&x);
                        real_holds[x] = true;
                        break 'seq;
                    }
                    m.advance(x);
                    real_pending.remove(&x);
                    real_holds[x] = true;
                }
                Err(_) => {
                    if !cand.is_empty() {
                        outcome = Some(Outcome::Discrepancy(format!("after step {} {:?}: the model lets {:?} return, the real lock still blocks after {:?} (model {:?})", i, (t, c), cand, w.pos, m)));
                        break 'seq;
                    }
                    if !real_pending.is_empty() {
                        *blocked_observations += real_pending.len() as u64;
                    }
                    break;
                }
            }
        }
    }
    // wind down: release everything until every blocked call has returned
    for _ in 0..(4 * n + 4) {
        for t in 0..n {
            if real_holds[t] && !real_pending.contains(&t) {
                let _ = real.txs[t].send(Msg::Do(Cmd::Release));
                real_holds[t] = false;
                // acknowledgement (or a completion of somebody else)
                while let Ok(x) = real.done.recv_timeout(Duration::from_secs(2)) {
                    if x == t && !real_pending.contains(&t) {
                        break;
                    }
                    real_pending.remove(&x);
                    real_holds[x] = true;
                }
            }
        }
        if real_pending.is_empty() && real_holds.iter().all(|h| !*h) {
            break;
        }
        while let Ok(x) = real.done.recv_timeout(Duration::from_millis(50)) {
            real_pending.remove(&x);
            real_holds[x] = true;
        }
    }
    if !real_pending.is_empty() && outcome.is_none() {
        outcome = Some(Outcome::Discrepancy(format!("wind-down: calls of threads {:?} never returned after everything was released", real_pending)));
    }
    for tx in &real.txs {
        let _ = tx.send(Msg::Exit);
    }
    if real_pending.is_empty() {
        for j in real.joins {
            let _ = j.join();
        }
    }
    outcome.unwrap_or(Outcome::State(m.canonical()))
}

#[derive(Default, Debug)]
pub struct LitmusReport {
    pub threads: usize,
    pub states: u64,
    pub transitions: u64,
    pub sequences_run: u64,
    pub ambiguous: u64,
    pub blocked_observations: u64,
    pub reruns: u64,
    pub max_depth: usize,
    pub discrepancies: Vec<(Vec<(usize, Cmd)>, String)>,
}

/// Breadth-first search over command sequences, deduplicated on the model state; every transition is run on the real lock
pub fn explore(n: usize, max_depth: usize) -> LitmusReport {
    let quick = Waits { neg: Duration::from_millis(25), pos: Duration::from_secs(2) };
    let slow = Waits { neg: Duration::from_millis(300), pos: Duration::from_secs(5) };
    let mut rep = LitmusReport { threads: n, ..Default::default() };
    let mut seen: HashSet<Model> = HashSet::new();
    seen.insert(Model::new(n).canonical());
    let mut frontier: VecDeque<(Vec<(usize, Cmd)>, Model)> = VecDeque::new();
    frontier.push_back((vec![], Model::new(n)));
    let mut depth = 0;
    while !frontier.is_empty() && depth < max_depth {
        depth += 1;
        let level: Vec<(Vec<(usize, Cmd)>, Model)> = frontier.drain(..).collect();
        let mut jobs: Vec<Vec<(usize, Cmd)>> = Vec::new();
        for (path, m) in &level {
            for t in 0..n {
                for c in m.legal(t) {
                    let mut p = path.clone();
                    p.push((t, c));
                    jobs.push(p);
                }
            }
        }
        let mut results = par_map(&jobs, 16, |p| {
            let mut b = 0;
            let o = run_sequence(n, p, quick, &mut b);
            (o, b, 0u64)
        });
        // timing is the only thing the real side adds: a discrepancy counts only if it survives long waits with nothing
        // else running (three attempts, one sequence at a time)
        for (p, r) in jobs.iter().zip(results.iter_mut()) {
            let mut attempts = 0;
            while matches!(r.0, Outcome::Discrepancy(_)) && attempts < 3 {
                attempts += 1;
                let mut b = 0;
                let o = run_sequence(n, p, slow, &mut b);
                *r = (o, b, r.2 + 1);
            }
        }
        for (p, (o, b, rerun)) in jobs.into_iter().zip(results) {
            rep.sequences_run += 1;
            rep.transitions += 1;
            rep.blocked_observations += b;
            rep.reruns += rerun;
            match o {
                Outcome::State(m) => {
                    if seen.insert(m.clone()) {
                        frontier.push_back((p, m));
                    }
                }
                Outcome::Ambiguous => rep.ambiguous += 1,
                Outcome::Discrepancy(d) => rep.discrepancies.push((p, d)),
            }
        }
        rep.max_depth = depth;
    }
    rep.states = seen.len() as u64;
    rep
}
