mod alloc_count;
mod bencode;
mod common;
mod fault;
mod coop;
mod http_sys;
mod lock_litmus;
mod netmc;
mod props;
mod seqmc;
mod udp_sys;
mod ws_sys;

#[global_allocator]
static GLOBAL: alloc_count::Counting = alloc_count::Counting;

fn main() {
    let raw: Vec<String> = std::env::args().collect();
    if raw.get(1).map(|s| s.as_str()) == Some("serve") {
        netmc::serve(&raw[2..]);
    }
    let args = common::parse_args();
    common::quiet_panics();
    // Wall-clock watchdog: a hung engine is a machinery failure (exit 2), never a verdict
    let limit: u64 = std::env::var("AQV_WATCHDOG_S").ok().and_then(|s| s.parse().ok()).unwrap_or(match args.tier {
        common::Tier::Quick => 1500,
        common::Tier::Thorough => 6 * 3600,
    });
    let id = args.id.clone();
    std::thread::spawn(move || {
        std::thread::sleep(std::time::Duration::from_secs(limit));
        common::machinery_failure(&format!("{}: watchdog: no result after {} s", id, limit));
    });
    let r = std::panic::catch_unwind(|| dispatch(&args));
    if let Err(e) = r {
        common::machinery_failure(&format!("harness panicked: {}", common::panic_message(&e)));
    }
}

fn dispatch(args: &common::Args) {
    match args.id.as_str() {
        "C01" => props::c01::main(args),
        "C02" => props::c02::main(args),
        "C03" => props::c03::main(args),
        "C04" => props::c04::main(args),
        "C05" => props::c05::main(args),
        "C06" => props::c06::main(args),
        "C07" => props::c07::main(args),
        "C08" => props::c08::main(args),
        "C09" => props::c09::main(args),
        "C10" => props::c10::main(args),
        "C11" => props::c11::main(args),
        "C12" => props::c12::main(args),
        "C13" => props::c13::main(args),
        "C14" => props::c14::main(args),
        "C15" => props::c15::main(args),
        "C16" => props::c16::main(args),
        "C17" => props::c17::main(args),
        "C18" => props::c18::main(args),
        "C19" => props::c19::main(args),
        "C20" => props::c20::main(args),
        other => common::machinery_failure(&format!("unknown property id {}", other)),
    }
}
