mod common;
mod props;
mod seqmc;
mod udp_sys;

fn main() {
    let args = common::parse_args();
    common::quiet_panics();
    let r = std::panic::catch_unwind(|| dispatch(&args));
    if let Err(e) = r {
        common::machinery_failure(&format!("harness panicked: {}", common::panic_message(&e)));
    }
}

fn dispatch(args: &common::Args) {
    match args.id.as_str() {
        "C01" => props::c01::main(args),
        "C20" => props::c20::main(args),
        other => common::machinery_failure(&format!("unknown property id {}", other)),
    }
}
