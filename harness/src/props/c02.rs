//! C02 — Peer lists are sound, bounded and never contain the requester
//! (exhaustive over swarm sizes x limits x requested counts x requester positions x every outcome
//! of the two random offsets).

use std::collections::{BTreeSet, HashSet};
use std::convert::Infallible;
use std::net::{IpAddr, Ipv4Addr, Ipv6Addr, SocketAddr};

use aquatic_common::{CanonicalSocketAddr, IndexMap, SecondsSinceServerStart, ValidUntil};
use rand::rand_core::TryRng;
use rand::SeedableRng;
use serde_json::json;

use crate::common::*;
use crate::udp_sys::check_peer_list;

/// RNG whose first two outputs are chosen fractions of the output range (bucket midpoints), the rest mid-range.
pub struct Scripted {
    pub fr: [(u64, u64); 2],
    pub calls: usize,
}

impl Scripted {
    fn next_frac(&mut self) -> (u64, u64) {
        let f = if self.calls < 2 { self.fr[self.calls] } else { (1, 2) };
        self.calls += 1;
        f
    }
}

impl TryRng for Scripted {
    type Error = Infallible;
    fn try_next_u32(&mut self) -> Result<u32, Infallible> {
        let (j, r) = self.next_frac();
        // midpoint of bucket j of r
        Ok((((2 * j as u128 + 1) << 32) / (2 * r as u128)) as u32)
    }
    fn try_next_u64(&mut self) -> Result<u64, Infallible> {
        let (j, r) = self.next_frac();
        Ok((((2 * j as u128 + 1) << 64) / (2 * r as u128)) as u64)
    }
    fn try_fill_bytes(&mut self, dst: &mut [u8]) -> Result<(), Infallible> {
        for c in dst.chunks_mut(8) {
            let v = self.try_next_u64()?.to_le_bytes();
            c.copy_from_slice(&v[..c.len()]);
        }
        Ok(())
    }
}

fn limits() -> Vec<usize> {
    vec![0, 1, 2, 3, 4, 5, 7, 8, 30, 50, 63, 64, 65]
}

/// Scripted answers for one call of the generator whose expected range has `r` values: the midpoint of every bucket at
/// resolution r (one answer per expected outcome; the first r entries, which the coverage accounting relies on), then at
/// resolution r + 1 and the two ends of the unit interval at resolution 4r + 4. Were the range one value wider or narrower than
/// expected (an inclusive bound, an end moved by one), some of these answers land on the value that should not exist.
fn fracs(r: usize) -> Vec<(u64, u64)> {
    let r = r as u64;
    let mut v: Vec<(u64, u64)> = (0..r).map(|j| (j, r)).collect();
    v.extend((0..=r).map(|j| (j, r + 1)));
    v.push((0, 4 * r + 4));
    v.push((4 * r + 3, 4 * r + 4));
    v
}

/// (to_one, span_two) of the selection arithmetic for `len` stored peers and limit `l` with per-half `h`
fn offset_ranges(len: usize, h: usize) -> (usize, usize) {
    let middle = len / 2;
    let to_one = std::cmp::max(1, middle.saturating_sub(h));
    let to_two = std::cmp::max(middle + 1, len.saturating_sub(h));
    (to_one, to_two - middle)
}

struct LocalRun {
    viols: Vec<(String, String, serde_json::Value)>,
}

impl LocalRun {
    fn violation_hits(&self) -> usize {
        self.viols.len()
    }

    fn violation(&mut self, sig: impl Into<String>, what: impl Into<String>, detail: serde_json::Value) {
        let sig = sig.into();
        if self.viols.len() < 50 || !self.viols.iter().any(|v| v.0 == sig) {
            self.viols.push((sig, what.into(), detail));
        }
    }
}

struct Acc {
    run: LocalRun,
    evals: u64,
    cases: u64,
    outcomes: HashSet<u64>,
}

impl Acc {
    fn new() -> Acc {
        Acc { run: LocalRun { viols: Vec::new() }, evals: 0, cases: 0, outcomes: HashSet::new() }
    }
}

// ------------------------------------------------------------------------------------------ HTTP

mod http {
    use super::*;
    use aquatic_http::config::Config;
    use aquatic_http::verif_storage::TorrentMaps;
    use aquatic_http_protocol::common::{AnnounceEvent, InfoHash, PeerId};
    use aquatic_http_protocol::request::AnnounceRequest;

    pub fn addr(v4: bool, i: usize) -> (IpAddr, u16) {
        if v4 {
            (IpAddr::V4(Ipv4Addr::new(10, 1, (i / 250) as u8, (i % 250) as u8 + 1)), 2000 + i as u16)
        } else {
            (IpAddr::V6(Ipv6Addr::new(0xfd00, 0, 0, 0, 0, 0, 1, i as u16 + 1)), 2000 + i as u16)
        }
    }

    fn req(port: u16, ev: AnnounceEvent, numwant: Option<usize>) -> AnnounceRequest {
        AnnounceRequest { info_hash: InfoHash([7; 20]), peer_id: PeerId([1; 20]), port, bytes_uploaded: 0, bytes_downloaded: 0, bytes_left: 1, event: ev, numwant, key: None }
    }

    /// build a swarm of n peers; `permuted`: with removals in between so that swap_remove has permuted storage order
    pub fn build(v4: bool, n: usize, permuted: bool) -> (TorrentMaps, Vec<(IpAddr, u16)>) {
        let mut maps = TorrentMaps::new(0);
        let cfg = Config::default();
        let mut rng = rand::rngs::SmallRng::seed_from_u64(1);
        let vu = ValidUntil::new_with_now(SecondsSinceServerStart::new_raw(0), 100);
        let total = if permuted { n + n / 2 + 1 } else { n };
        for i in 0..total {
            let (ip, port) = addr(v4, i);
            maps.handle_announce_request(&cfg, &mut rng, vu, CanonicalSocketAddr::new(SocketAddr::new(ip, 1)), req(port, AnnounceEvent::Started, None));
        }
        let mut members: Vec<usize> = (0..total).collect();
        if permuted {
            // remove every third until n are left
            let mut k = 0;
            while members.len() > n {
                k = (k + 2) % members.len();
                let i = members.remove(k);
                let (ip, port) = addr(v4, i);
                maps.handle_announce_request(&cfg, &mut rng, vu, CanonicalSocketAddr::new(SocketAddr::new(ip, 1)), req(port, AnnounceEvent::Stopped, None));
            }
        }
        (maps, members.into_iter().map(|i| addr(v4, i)).collect())
    }

    fn order(maps: &TorrentMaps, v4: bool) -> Vec<(IpAddr, u16)> {
        let d = maps.verif_dump();
        let ts = if v4 { d.ipv4 } else { d.ipv6 };
        ts.first().map(|t| t.peers.iter().map(|p| (p.ip, p.port)).collect()).unwrap_or_default()
    }

    pub fn sweep(acc: &mut Acc, v4s: &[bool], perms: &[bool], ns: &[usize]) {
        let numwants: Vec<Option<usize>> = vec![None, Some(0), Some(1), Some(2), Some(3), Some(usize::MAX)];
        for &v4 in v4s {
            for &permuted in perms {
                for &n in ns {
                    let (mut maps, members) = build(v4, n, permuted);
                    let member_set: BTreeSet<(IpAddr, u16)> = members.iter().cloned().collect();
                    let ord = order(&maps, v4);
                    if ord.len() != n || ord.iter().cloned().collect::<BTreeSet<_>>() != member_set {
                        machinery_failure("http swarm construction did not give the intended members");
                    }
                    for m in limits() {
                        let mut cfg = Config::default();
                        cfg.protocol.max_peers = m;
                        let mut nws = numwants.clone();
                        for extra in [m.saturating_sub(1), m, m + 1, n.saturating_sub(1), n, n + 1] {
                            if !nws.contains(&Some(extra)) {
                                nws.push(Some(extra));
                            }
                        }
                        for nw in &nws {
                            let limit = match nw {
                                None | Some(0) => m,
                                Some(x) => (*x).min(m),
                            };
                            // requester absent ('stopped' from an unknown key leaves the swarm as it is): every offset pair
                            let (to_one, span_two) = if n > limit { offset_ranges(n, limit / 2) } else { (1, 1) };
                            let mut seen_pairs: HashSet<(usize, usize)> = HashSet::new();
                            acc.cases += 1;
                            for (a, fa) in fracs(to_one).into_iter().enumerate() {
                                for (b, fb) in fracs(span_two).into_iter().enumerate() {
                                    let mut rng = Scripted { fr: [fa, fb], calls: 0 };
                                    let (ip, port) = addr(v4, 9000);
                                    let r = std::panic::catch_unwind(std::panic::AssertUnwindSafe(|| {
                                        maps.handle_announce_request(&cfg, &mut rng, ValidUntil::new_with_now(SecondsSinceServerStart::new_raw(0), 100), CanonicalSocketAddr::new(SocketAddr::new(ip, 1)), req(port, AnnounceEvent::Stopped, *nw))
                                    }));
                                    acc.evals += 1;
                                    let case = json!({"tracker": "http", "v4": v4, "permuted": permuted, "n": n, "max_peers": m, "numwant": nw.map(|x| x.to_string()), "requester": "absent", "offsets": [a, b]});
                                    let resp = match r {
                                        Ok(r) => r,
                                        Err(e) => {
                                            acc.run.violation("peerlist/http/panic", format!("announce handler panicked: {} ({})", panic_message(&e), case), case);
                                            continue;
                                        }
                                    };
                                    let peers: Vec<(IpAddr, u16)> = if v4 { resp.peers.0.iter().map(|p| (IpAddr::V4(p.ip_address), p.port)).collect() } else { resp.peers6.0.iter().map(|p| (IpAddr::V6(p.ip_address), p.port)).collect() };
                                    if let Some(msg) = check_peer_list(&peers, &member_set, (ip, port), limit, 1) {
                                        acc.run.violation("peerlist/http/rule", format!("{} ({})", msg, case), case.clone());
                                    }
                                    if (if v4 { resp.peers6.0.len() } else { resp.peers.0.len() }) != 0 {
                                        acc.run.violation("peerlist/http/family", format!("peers of the other address family in the reply ({})", case), case.clone());
                                    }
                                    if n > limit && limit >= 2 {
                                        let h = limit / 2;
                                        let o1 = ord.iter().position(|p| *p == peers[0]);
                                        let o2 = peers.get(h).and_then(|x| ord.iter().position(|p| p == x));
                                        if let (Some(o1), Some(o2)) = (o1, o2) {
                                            seen_pairs.insert((o1, o2));
                                        }
                                    }
                                    acc.outcomes.insert(fp64(&(peers.len(), limit, n.min(70))));
                                }
                            }
                            // (a reply that already broke the rule cannot be expected to cover the offset space; more start pairs than expected are
                            // not a fault of the sweep: the rule check decides whether they matter)
                            if n > limit && limit >= 2 && seen_pairs.len() < to_one * span_two && acc.run.violation_hits() == 0 {
                                machinery_failure(&format!("http: offset pair coverage incomplete for n={} limit={}: {} of {}", n, limit, seen_pairs.len(), to_one * span_two));
                            }
                        }
                        // requester present at chosen positions: rebuild each time, boundary offsets
                        if n >= 1 {
                            let mut positions = vec![0, n - 1, n / 2];
                            if n / 2 >= 1 {
                                positions.push(n / 2 - 1);
                            }
                            positions.sort();
                            positions.dedup();
                            for pos in positions {
                                for nw in [None, Some(1usize), Some(m), Some(n)] {
                                    let limit = match nw {
                                        None | Some(0) => m,
                                        Some(x) => x.min(m),
                                    };
                                    for (a, b) in [(0u64, 0u64), (1, 1)] {
                                        let (mut maps2, _) = build(v4, n, permuted);
                                        let ord2 = order(&maps2, v4);
                                        let who = ord2[pos];
                                        let others: BTreeSet<(IpAddr, u16)> = member_set.iter().filter(|x| **x != who).cloned().collect();
                                        // a=1 means "last bucket"
                                        let mut rng = Scripted { fr: [(if a == 0 { 0 } else { 999 }, 1000), (if b == 0 { 0 } else { 999 }, 1000)], calls: 0 };
                                        let r = std::panic::catch_unwind(std::panic::AssertUnwindSafe(|| {
                                            maps2.handle_announce_request(&cfg, &mut rng, ValidUntil::new_with_now(SecondsSinceServerStart::new_raw(0), 100), CanonicalSocketAddr::new(SocketAddr::new(who.0, 1)), req(who.1, AnnounceEvent::Empty, nw))
                                        }));
                                        acc.evals += 1;
                                        let case = json!({"tracker": "http", "v4": v4, "permuted": permuted, "n": n, "max_peers": m, "numwant": nw.map(|x| x.to_string()), "requester": pos, "offsets": [a, b]});
                                        match r {
                                            Err(e) => acc.run.violation("peerlist/http/panic", format!("announce handler panicked: {} ({})", panic_message(&e), case), case),
                                            Ok(resp) => {
                                                let peers: Vec<(IpAddr, u16)> = if v4 { resp.peers.0.iter().map(|p| (IpAddr::V4(p.ip_address), p.port)).collect() } else { resp.peers6.0.iter().map(|p| (IpAddr::V6(p.ip_address), p.port)).collect() };
                                                if let Some(msg) = check_peer_list(&peers, &others, who, limit, 1) {
                                                    acc.run.violation("peerlist/http/rule", format!("{} ({})", msg, case), case);
                                                }
                                                acc.outcomes.insert(fp64(&(peers.len(), limit, n.min(70), 1u8)));
                                            }
                                        }
                                    }
                                }
                            }
                        }
                    }
                    let _ = &mut maps;
                }
            }
        }
    }
}

// ------------------------------------------------------------------------------------------ UDP

mod udp {
    use super::*;
    use crate::udp_sys::{Kind, UdpWorld, WorldOpts};

    fn key_addr_n(v4: bool, i: usize) -> (IpAddr, u16) {
        crate::udp_sys::key_addr(v4, i as u8)
    }

    pub fn sweep(acc: &mut Acc, v4s: &[bool], perms: &[bool], ns: &[usize]) {
        let wanted: Vec<i32> = vec![i32::MIN, -1, 0, 1, 2, 3, i32::MAX];
        for &v4 in v4s {
            for &permuted in perms {
                for &n in ns {
                    // keys 0..n (u8 key space: 64 + 32 fits)
                    let total = if permuted { n + n / 2 + 1 } else { n };
                    let build = |m: usize| -> (UdpWorld, Vec<usize>) {
                        let mut w = UdpWorld::new(WorldOpts { max_response_peers: m, families: vec![v4], ..Default::default() });
                        let vu = ValidUntil::new_with_now(SecondsSinceServerStart::new_raw(0), 100);
                        for i in 0..total {
                            w.real_announce(0, i as u8, Kind::Leech, 0, 0, v4, vu).unwrap();
                        }
                        let mut members: Vec<usize> = (0..total).collect();
                        let mut k = 0;
                        while members.len() > n {
                            k = (k + 2) % members.len();
                            let i = members.remove(k);
                            w.real_announce(0, i as u8, Kind::Stop5, 0, 0, v4, vu).unwrap();
                        }
                        (w, members)
                    };
                    for m in limits() {
                        let (mut w, members) = build(m);
                        let member_set: BTreeSet<(IpAddr, u16)> = members.iter().map(|i| key_addr_n(v4, *i)).collect();
                        let dump = w.maps.verif_dump();
                        let t = if v4 { dump.ipv4.first() } else { dump.ipv6.first() };
                        let ord: Vec<(Vec<u8>, u16)> = t.map(|t| t.peers.iter().map(|p| (p.ip.clone(), p.port)).collect()).unwrap_or_default();
                        if ord.len() != n {
                            machinery_failure("udp swarm construction did not give the intended size");
                        }
                        let to_key = |p: &(IpAddr, u16)| -> (Vec<u8>, u16) {
                            (match p.0 { IpAddr::V4(i) => i.octets().to_vec(), IpAddr::V6(i) => i.octets().to_vec() }, p.1)
                        };
                        let mut ws = wanted.clone();
                        for extra in [m as i64 - 1, m as i64, m as i64 + 1, n as i64 - 1, n as i64, n as i64 + 1] {
                            if extra > 0 && !ws.contains(&(extra as i32)) {
                                ws.push(extra as i32);
                            }
                        }
                        for nw in &ws {
                            let limit = if *nw <= 0 { m } else { (*nw as usize).min(m) };
                            let need_pairs = n > limit && limit >= 2;
                            let (to_one, span_two) = if need_pairs { offset_ranges(n, limit / 2) } else { (1, 1) };
                            let target = to_one * span_two;
                            let mut seen_pairs: HashSet<(usize, usize)> = HashSet::new();
                            acc.cases += 1;
                            let mut seed = 0u64;
                            let mut last_growth: (usize, u64) = (0, 0);
                            loop {
                                w.rng = rand::rngs::SmallRng::seed_from_u64(seed);
                                seed += 1;
                                let vu = ValidUntil::new_with_now(SecondsSinceServerStart::new_raw(0), 100);
                                let r = std::panic::catch_unwind(std::panic::AssertUnwindSafe(|| w.real_announce(0, 199, Kind::Stop5, 0, *nw, v4, vu)));
                                acc.evals += 1;
                                let case = json!({"tracker": "udp", "v4": v4, "permuted": permuted, "n": n, "max_response_peers": m, "numwant": nw, "requester": "absent", "seed": seed - 1});
                                let case2 = case.clone();
                                match r {
                                    Err(e) => {
                                        acc.run.violation("peerlist/udp/panic", format!("announce panicked: {} ({})", panic_message(&e), case), case);
                                        break;
                                    }
                                    Ok(Err(e)) => {
                                        acc.run.violation("peerlist/udp/reply-shape", format!("{} ({})", e, case), case);
                                        break;
                                    }
                                    Ok(Ok((_, _, peers, _))) => {
                                        if let Some(msg) = check_peer_list(&peers, &member_set, key_addr_n(v4, 199), limit, 1) {
                                            acc.run.violation("peerlist/udp/rule", format!("{} ({})", msg, case), case.clone());
                                        }
                                        acc.outcomes.insert(fp64(&(peers.len(), limit, n.min(70), 2u8)));
                                        if need_pairs && !peers.is_empty() {
                                            let h = limit / 2;
                                            let o1 = ord.iter().position(|p| *p == to_key(&peers[0]));
                                            let o2 = peers.get(h).and_then(|x| ord.iter().position(|p| *p == to_key(x)));
                                            if let (Some(o1), Some(o2)) = (o1, o2) {
                                                seen_pairs.insert((o1, o2));
                                            }
                                        }
                                    }
                                }
                                // stop rule: the expected outcome space is covered AND no new outcome has shown up for a while
                                // (a changed selection arithmetic has outcomes outside the expected space)
                                if need_pairs {
                                    if seen_pairs.len() > last_growth.0 {
                                        last_growth = (seen_pairs.len(), seed);
                                    }
                                    if seen_pairs.len() >= target && seed - last_growth.1 >= (4 * target as u64 + 48) {
                                        if seen_pairs.len() > target {
                                            acc.run.violation("peerlist/udp/unexpected-offsets", format!("{} distinct (offset_one, offset_two) outcomes observed where the selection arithmetic allows {} ({})", seen_pairs.len(), target, case2), case2);
                                        }
                                        break;
                                    }
                                } else if seed >= 3 {
                                    break;
                                }
                                if seed > 400_000 {
                                    if acc.run.violation_hits() > 0 {
                                        break;
                                    }
                                    machinery_failure(&format!("udp: offset pair coverage incomplete for n={} limit={}: {} of {} after {} seeds", n, limit, seen_pairs.len(), target, seed));
                                }
                            }
                        }
                        // requester present: first, middle-1, middle, last of storage order; rebuild each time; few seeds
                        if n >= 1 {
                            let mut positions = vec![0, n - 1, n / 2];
                            if n / 2 >= 1 {
                                positions.push(n / 2 - 1);
                            }
                            positions.sort();
                            positions.dedup();
                            for pos in positions {
                                for nw in [0i32, 1, m as i32, n as i32] {
                                    let limit = if nw <= 0 { m } else { (nw as usize).min(m) };
                                    for seed in 0..3u64 {
                                        let (mut w2, members2) = build(m);
                                        let d2 = w2.maps.verif_dump();
                                        let t2 = if v4 { d2.ipv4.first() } else { d2.ipv6.first() };
                                        let who_k = t2.unwrap().peers[pos].clone();
                                        let who_i = *members2.iter().find(|i| to_key(&key_addr_n(v4, **i)) == (who_k.ip.clone(), who_k.port)).unwrap();
                                        let others: BTreeSet<(IpAddr, u16)> = members2.iter().filter(|i| **i != who_i).map(|i| key_addr_n(v4, *i)).collect();
                                        w2.rng = rand::rngs::SmallRng::seed_from_u64(seed);
                                        let vu = ValidUntil::new_with_now(SecondsSinceServerStart::new_raw(0), 100);
                                        let r = std::panic::catch_unwind(std::panic::AssertUnwindSafe(|| w2.real_announce(0, who_i as u8, Kind::Leech, 0, nw, v4, vu)));
                                        acc.evals += 1;
                                        let case = json!({"tracker": "udp", "v4": v4, "permuted": permuted, "n": n, "max_response_peers": m, "numwant": nw, "requester": pos, "seed": seed});
                                        match r {
                                            Err(e) => acc.run.violation("peerlist/udp/panic", format!("announce panicked: {} ({})", panic_message(&e), case), case),
                                            Ok(Err(e)) => acc.run.violation("peerlist/udp/reply-shape", format!("{} ({})", e, case), case),
                                            Ok(Ok((_, _, peers, _))) => {
                                                if let Some(msg) = check_peer_list(&peers, &others, key_addr_n(v4, who_i), limit, 1) {
                                                    acc.run.violation("peerlist/udp/rule", format!("{} ({})", msg, case), case);
                                                }
                                                acc.outcomes.insert(fp64(&(peers.len(), limit, n.min(70), 3u8)));
                                            }
                                        }
                                    }
                                }
                            }
                        }
                    }
                }
            }
        }
    }
}

// ------------------------------------------------------------------------------------------ WS

mod ws {
    use super::*;
    use aquatic_ws::workers::swarm::verif_storage::extract_response_peers;

    pub fn sweep(acc: &mut Acc, perms: &[bool], ns: &[usize]) {
        for &permuted in perms {
            for &n in ns {
                let mut map: IndexMap<u32, u32> = IndexMap::default();
                let total = if permuted { n + n / 2 + 1 } else { n };
                for i in 0..total as u32 {
                    map.insert(i, i + 1000);
                }
                let mut k = 0;
                while map.len() > n {
                    k = (k + 2) % map.len();
                    let key = *map.get_index(k).unwrap().0;
                    map.swap_remove(&key);
                }
                let keys: Vec<u32> = map.keys().cloned().collect();
                for m in limits() {
                    // sender: absent, first, middle-1, middle, last
                    let mut senders: Vec<Option<usize>> = vec![None];
                    if n >= 1 {
                        for p in [0, n - 1, n / 2, (n / 2).saturating_sub(1)] {
                            if !senders.contains(&Some(p)) {
                                senders.push(Some(p));
                            }
                        }
                    }
                    for s in senders {
                        let sender_key = s.map(|p| keys[p]).unwrap_or(999_999);
                        let others: BTreeSet<u32> = keys.iter().filter(|k| **k != sender_key).map(|k| k + 1000).collect();
                        let two_halves = n > m + 1;
                        let h = m / 2 + 1;
                        let (to_one, span_two) = if two_halves { offset_ranges(n, h) } else { (1, 1) };
                        let mut seen_pairs: HashSet<(usize, usize)> = HashSet::new();
                        acc.cases += 1;
                        for (a, fa) in fracs(to_one).into_iter().enumerate() {
                            for (b, fb) in fracs(span_two).into_iter().enumerate() {
                                let mut rng = Scripted { fr: [fa, fb], calls: 0 };
                                let r = std::panic::catch_unwind(std::panic::AssertUnwindSafe(|| extract_response_peers(&mut rng, &map, m, sender_key, |_, v| *v)));
                                acc.evals += 1;
                                let case = json!({"tracker": "ws", "permuted": permuted, "n": n, "max": m, "sender_position": s, "offsets": [a, b]});
                                match r {
                                    Err(e) => acc.run.violation("peerlist/ws/panic", format!("extract_response_peers panicked: {} ({})", panic_message(&e), case), case),
                                    Ok(peers) => {
                                        if let Some(msg) = check_peer_list(&peers, &others, sender_key + 1000, m, 0) {
                                            acc.run.violation("peerlist/ws/rule", format!("{} ({})", msg, case), case);
                                        }
                                        acc.outcomes.insert(fp64(&(peers.len(), m, n.min(70), 4u8)));
                                        // record where the two windows started, from the unfiltered positions
                                        if two_halves && !peers.is_empty() && a < to_one && b < span_two {
                                            seen_pairs.insert((a, b));
                                        }
                                    }
                                }
                            }
                        }
                        if two_halves && m >= 1 && seen_pairs.len() < to_one * span_two && acc.run.violation_hits() == 0 {
                            machinery_failure("ws: pair sweep incomplete");
                        }
                    }
                }
            }
        }
    }

    /// confirm that the scripted generator really produces every offset pair: the windows returned for
    /// (a, b) must start at a and middle + b when the sender is absent
    pub fn calibrate() -> bool {
        let n = 40usize;
        let m = 6usize;
        let mut map: IndexMap<u32, u32> = IndexMap::default();
        for i in 0..n as u32 {
            map.insert(i, i);
        }
        let h = m / 2 + 1;
        let (to_one, span_two) = offset_ranges(n, h);
        for a in 0..to_one {
            for b in 0..span_two {
                let mut rng = Scripted { fr: [(a as u64, to_one as u64), (b as u64, span_two as u64)], calls: 0 };
                let peers = extract_response_peers(&mut rng, &map, m, 999_999, |_, v| *v);
                if peers.first() != Some(&(a as u32)) || peers.get(h) != Some(&((n / 2 + b) as u32)) || rng.calls != 2 {
                    return false;
                }
            }
        }
        true
    }
}

pub fn main(args: &Args) -> ! {
    let mut run = Run::new(args, "exploration");
    run.set("rule", "swarm size n x configured maximum x requested count x requester position x storage order (insertion / permuted by removals) x both families x every outcome of the two random offsets (scripted generator for HTTP and WS, seed sweep with measured full pair coverage for UDP); a case is one (tracker, family, order, n, max, requested, position); distinct_nontrivial counts distinct (tracker, size class, limit, returned length) outcomes");
    run.assume("n > 64 (thorough: 128) not explored (selection arithmetic depends only on n, the limit and the offsets)");
    run.assume("requester-present cases use boundary offsets only: the selection runs after the requester's removal, i.e. on a requester-absent swarm, for which every offset pair is enumerated");
    let max_n = if args.tier.thorough() { 128 } else { 64 };

    if args.replay.is_some() {
        eprintln!("replay: cases are cheap, re-running the sweep");
    }
    if !ws::calibrate() {
        machinery_failure("scripted RNG does not map to the intended offsets (rand changed its sampling?)");
    }
    // jobs: (tracker, family, order, swarm size), spread over the cores
    let mut jobs: Vec<(u8, bool, bool, usize)> = Vec::new();
    for n in (0..=max_n).rev() {
        for permuted in [false, true] {
            jobs.push((0, true, permuted, n));
            for v4 in [true, false] {
                jobs.push((1, v4, permuted, n));
                jobs.push((2, v4, permuted, n));
            }
        }
    }
    let results: Vec<(u8, Acc)> = par_map(&jobs, num_threads(), |(t, v4, permuted, n)| {
        let mut acc = Acc::new();
        match t {
            0 => ws::sweep(&mut acc, &[*permuted], &[*n]),
            1 => http::sweep(&mut acc, &[*v4], &[*permuted], &[*n]),
            _ => udp::sweep(&mut acc, &[*v4], &[*permuted], &[*n]),
        }
        (*t, acc)
    });
    let (mut evals, mut cases, mut e_ws, mut e_http, mut e_udp) = (0u64, 0u64, 0u64, 0u64, 0u64);
    let mut all_outcomes: HashSet<u64> = HashSet::new();
    for (t, acc) in results {
        evals += acc.evals;
        cases += acc.cases;
        match t {
            0 => e_ws += acc.evals,
            1 => e_http += acc.evals,
            _ => e_udp += acc.evals,
        }
        all_outcomes.extend(acc.outcomes);
        for (sig, what, d) in acc.run.viols {
            run.violation(sig, what, d);
        }
    }
    let outcomes = all_outcomes.len() as u64;
    run.set("evaluations", evals);
    run.set("cases", cases);
    run.set("selection_calls_ws", e_ws);
    run.set("selection_calls_http", e_http);
    run.set("selection_calls_udp", e_udp);
    run.set("distinct_nontrivial", outcomes);
    run.set("max_swarm_size", max_n);
    run.set("exhaustive", true);
    run.sample(json!({"tracker": "http", "n": 24, "max_peers": 8, "numwant": 5, "requester": "absent", "offsets": "all"}));
    run.sample(json!({"tracker": "udp", "n": 7, "max_response_peers": 4, "numwant": -1, "requester": 3, "seeds": [0, 1, 2]}));
    run.sample(json!({"tracker": "ws", "n": 12, "max": 3, "sender_position": 6, "offsets": "all"}));
    run.finish();
}
