//! C17 — WebTorrent tracker routes to the right connection; closed ones leave no peers
//! (model BFS over event sequences + conformance replay against aquatic_ws::run over worker-count
//! configurations and placements; messages fenced on every connection after every event).

use std::collections::{BTreeMap, BTreeSet, HashSet, VecDeque};
use std::net::{IpAddr, Ipv4Addr, SocketAddr};
use std::sync::atomic::{AtomicU64, Ordering};
use std::sync::Mutex;
use std::time::{Duration, Instant};

use serde::{Deserialize, Serialize};
use serde_json::{json, Value};

use crate::common::*;
use crate::netmc::*;

#[derive(Clone, Copy, Debug, Serialize, Deserialize, PartialEq, Eq, Hash, PartialOrd, Ord)]
pub enum K {
    Leech,
    Seed,
    Stop,
}

#[derive(Clone, Debug, Serialize, Deserialize, PartialEq, Eq, Hash)]
pub enum WEv {
    /// announce by connection c for torrent t with peer id `own` (P_c) or `next` (P_{c+1}), k offers
    Ann { c: u8, t: u8, own: bool, k: K, offers: u8 },
    /// answer the oldest offer c has received for torrent t (a bogus answer if it has none)
    Answer { c: u8, t: u8 },
    /// 0 = [t0], 1 = [t0, t1, unknown] (spread over swarm workers), 2 = no info_hash (refused with an error)
    Scrape { c: u8, v: u8 },
    Close { c: u8, abrupt: bool },
}

pub struct Params {
    pub conns: u8,
    pub torrents: u8,
    pub offers: Vec<u8>,
    pub kinds: Vec<K>,
    pub foreign: bool,
    pub answers: bool,
    pub scrapes: Vec<u8>,
}

/// Abstract model used to enumerate event sequences (pending offers are tracked at replay time only)
#[derive(Clone, Debug, PartialEq, Eq, Hash, PartialOrd, Ord, Default)]
pub struct Abs {
    /// torrent -> peer id index -> (owner connection, seeder)
    pub torrents: BTreeMap<u8, BTreeMap<u8, (u8, bool)>>,
    pub recorded: BTreeMap<u8, BTreeMap<u8, u8>>,
    /// connections that were closed (a closed connection index is reopened as a new connection on next use)
    pub open: BTreeSet<u8>,
    pub offered: BTreeSet<u8>,
}

fn pid_of(c: u8, own: bool, conns: u8) -> u8 {
    if own {
        c
    } else {
        (c + 1) % conns
    }
}

impl Abs {
    fn close(&mut self, c: u8) {
        if let Some(rec) = self.recorded.remove(&c) {
            for (t, p) in rec {
                if let Some(tor) = self.torrents.get_mut(&t) {
                    if tor.get(&p).map(|x| x.0) == Some(c) {
                        tor.remove(&p);
                    }
                    if tor.is_empty() {
                        self.torrents.remove(&t);
                    }
                }
            }
        }
        self.open.remove(&c);
    }

    pub fn events(&self, p: &Params) -> Vec<WEv> {
        let mut v = Vec::new();
        for c in 0..p.conns {
            for t in 0..p.torrents {
                for k in &p.kinds {
                    for o in &p.offers {
                        v.push(WEv::Ann { c, t, own: true, k: *k, offers: *o });
                    }
                }
                if p.foreign {
                    v.push(WEv::Ann { c, t, own: false, k: K::Leech, offers: 0 });
                    v.push(WEv::Ann { c, t, own: false, k: K::Stop, offers: 0 });
                }
                if p.answers {
                    v.push(WEv::Answer { c, t });
                }
            }
        }
        for s in &p.scrapes {
            v.push(WEv::Scrape { c: 0, v: *s });
        }
        for c in &self.open {
            v.push(WEv::Close { c: *c, abrupt: false });
            v.push(WEv::Close { c: *c, abrupt: true });
        }
        v
    }

    pub fn apply(&mut self, ev: &WEv, p: &Params) {
        match ev {
            WEv::Ann { c, t, own, k, offers } => {
                self.open.insert(*c);
                let pid = pid_of(*c, *own, p.conns);
                let rec = self.recorded.entry(*c).or_default();
                match rec.get(t) {
                    Some(x) if *x != pid => {
                        self.close(*c);
                        return;
                    }
                    Some(_) => {}
                    None => {
                        rec.insert(*t, pid);
                    }
                }
                if *k == K::Stop {
                    rec.remove(t);
                }
                let tor = self.torrents.entry(*t).or_default();
                if tor.get(&pid).map(|x| x.0 != *c).unwrap_or(false) {
                    return; // ignored
                }
                match k {
                    K::Stop => {
                        tor.remove(&pid);
                    }
                    K::Leech => {
                        tor.insert(pid, (*c, false));
                    }
                    K::Seed => {
                        tor.insert(pid, (*c, true));
                    }
                }
                if *offers > 0 && *k != K::Stop && tor.len() > 1 {
                    self.offered.insert(*t);
                }
                if tor.is_empty() {
                    self.torrents.remove(t);
                }
            }
            WEv::Answer { c, .. } => {
                self.open.insert(*c);
            }
            WEv::Scrape { c, .. } => {
                self.open.insert(*c);
            }
            WEv::Close { c, .. } => self.close(*c),
        }
    }
}

pub fn model_paths(p: &Params, depth: usize) -> (Vec<Vec<WEv>>, usize) {
    let mut seen: HashSet<Abs> = HashSet::new();
    seen.insert(Abs::default());
    let mut q: VecDeque<(Abs, Vec<WEv>)> = VecDeque::new();
    q.push_back((Abs::default(), Vec::new()));
    let mut paths = Vec::new();
    while let Some((m, path)) = q.pop_front() {
        if path.len() >= depth {
            continue;
        }
        for ev in m.events(p) {
            let mut m2 = m.clone();
            m2.apply(&ev, p);
            let mut p2 = path.clone();
            p2.push(ev);
            paths.push(p2.clone());
            if seen.insert(m2.clone()) {
                q.push_back((m2, p2));
            }
        }
    }
    (paths, seen.len())
}

// ---------------------------------------------------------------------------------------------- replay

#[derive(Clone, Debug)]
pub struct Placement {
    pub conn_worker: Vec<u8>,
    pub torrent_worker: Vec<u8>,
}

pub struct Tracker {
    pub child: TrackerChild,
    pub socket_workers: u8,
    pub swarm_workers: u8,
    pub label: String,
}

pub fn start_tracker(sw: u8, wm: u8) -> Tracker {
    start_tracker_cleaning(sw, wm, json!({"max_peer_age": 100000, "max_offer_age": 100000, "torrent_cleaning_interval": 100000, "max_connection_idle": 100000}))
}

pub fn start_tracker_cleaning(sw: u8, wm: u8, cleaning: Value) -> Tracker {
    // ready = every socket worker answers a request (a worker listens before it has joined its channel meshes). On a heavily
    // loaded machine a worker was seen never to get that far (asleep with 0.06 s of CPU while its siblings served): such a
    // tracker is started afresh once; the observation is recorded in DESIGN.md, it is not something a replay can show.
    for attempt in 0..2 {
        let cfg = json!({"socket_workers": sw, "swarm_workers": wm, "network": {"address": "127.0.0.1:PORT"}, "protocol": {"max_offers": 2}, "cleaning": cleaning.clone()});
        let mut child = TrackerChild::spawn("ws", cfg, &[("AQV_PORT_PER_WORKER", "1".into())]);
        if all_workers_serving("ws", child.port, sw, 90) && child.exited().is_none() {
            return Tracker { child, socket_workers: sw, swarm_workers: wm, label: format!("socket_workers={} swarm_workers={}", sw, wm) };
        }
        let ex = child.exited();
        eprintln!("[C17] tracker socket_workers={} swarm_workers={} not serving after 90 s (attempt {}, exit code {:?}); threads: {:?}", sw, wm, attempt, ex, proc_thread_states(child.child.id()));
    }
    machinery_failure("ws tracker did not start serving (two attempts, 90 s each)");
}

fn hash_for(ns: u64, t: u8, pl: &Placement, wm: u8) -> [u8; 20] {
    let mut h = [0u8; 20];
    // any first byte that maps to the chosen swarm worker: w, w + n, w + 2n, ... chosen by the namespace
    h[0] = (if t >= 8 { (t - 8) % wm } else { pl.torrent_worker[t as usize] % wm }) + wm * (ns % (256 / wm as u64)) as u8;
    h[1..9].copy_from_slice(&ns.to_be_bytes());
    h[9] = t;
    for (i, x) in h.iter_mut().enumerate().skip(10) {
        *x = 0x40 + ((ns as u8).wrapping_add(i as u8) & 0x3f);
    }
    h
}

fn pid_bytes(ns: u64, p: u8) -> [u8; 20] {
    let mut b = [b'-'; 20];
    b[0] = b'P';
    b[1] = b'0' + p;
    b[2..10].copy_from_slice(&ns.to_be_bytes());
    b
}

fn oid_bytes(n: u32) -> [u8; 20] {
    let mut b = [b'o'; 20];
    b[..4].copy_from_slice(&n.to_be_bytes());
    b
}

struct Conn {
    ws: WsConn,
    gen: u32,
}

#[derive(Clone, Debug)]
struct MPeer {
    owner: (u8, u32),
    seeder: bool,
    /// (answering peer id index, offer id)
    expecting: BTreeSet<(u8, u32)>,
}

pub struct Replayer<'a> {
    trk: &'a Tracker,
    p: &'a Params,
    ns: u64,
    pl: Placement,
    conns: Vec<Option<Conn>>,
    gens: Vec<u32>,
    monitor: WsConn,
    torrents: BTreeMap<u8, BTreeMap<u8, MPeer>>,
    recorded: BTreeMap<u8, BTreeMap<u8, u8>>,
    /// offers a connection received: (torrent, from peer, offer id)
    inbox: BTreeMap<u8, Vec<(u8, u8, u32)>>,
    next_offer: u32,
    pub requests: u64,
    /// a violation that does not invalidate the rest of the path
    pub pending_note: Option<Fail>,
}

type Fail = (String, String);

impl<'a> Replayer<'a> {
    fn addr(&self, c: u8) -> SocketAddr {
        SocketAddr::new(IpAddr::V4(Ipv4Addr::LOCALHOST), self.trk.child.port + (self.pl.conn_worker[c as usize] % self.trk.socket_workers) as u16)
    }

    fn ensure_open(&mut self, c: u8) -> Result<(), Fail> {
        if self.conns[c as usize].is_none() {
            self.gens[c as usize] += 1;
            let ws = WsConn::connect_patiently(self.addr(c)).ok_or(("ws/connect-failed".to_string(), "could not connect".to_string()))?;
            self.conns[c as usize] = Some(Conn { ws, gen: self.gens[c as usize] });
        }
        Ok(())
    }

    fn counts(&self, t: u8) -> (u64, u64) {
        self.torrents.get(&t).map(|m| (m.values().filter(|p| p.seeder).count() as u64, m.values().filter(|p| !p.seeder).count() as u64)).unwrap_or((0, 0))
    }

    fn model_close(&mut self, c: u8) {
        let gen = self.gens[c as usize];
        if let Some(rec) = self.recorded.remove(&c) {
            for (t, p) in rec {
                if let Some(tor) = self.torrents.get_mut(&t) {
                    if tor.get(&p).map(|x| x.owner) == Some((c, gen)) {
                        tor.remove(&p);
                    }
                    if tor.is_empty() {
                        self.torrents.remove(&t);
                    }
                }
            }
        }
        self.inbox.remove(&c);
        self.conns[c as usize] = None;
    }

    fn fence_hashes(&self) -> Vec<String> {
        (0..self.trk.swarm_workers).map(|w| id20(&hash_for(self.ns, 8 + w, &self.pl, self.trk.swarm_workers))).collect()
    }

    /// Send a fence scrape on every open connection (and the monitor) and collect everything that arrives before its reply
    fn fence_all(&mut self) -> Result<BTreeMap<u8, Vec<Value>>, Fail> {
        let fence = json!({"action": "scrape", "info_hash": self.fence_hashes()}).to_string();
        let mut got: BTreeMap<u8, Vec<Value>> = BTreeMap::new();
        let n = self.conns.len() as u8;
        for c in 0..=n {
            let ws: &mut WsConn = if c == n {
                &mut self.monitor
            } else {
                match self.conns[c as usize].as_mut() {
                    Some(x) => &mut x.ws,
                    None => continue,
                }
            };
            self.requests += 1;
            if !ws.send_text(fence.clone()) {
                return Err(("ws/connection-lost".into(), format!("connection {} was closed by the tracker", c)));
            }
            let t0 = Instant::now();
            loop {
                match ws.recv_text(5000) {
                    None => return Err(("ws/fence-unanswered".into(), format!("scrape on connection {} not answered within 5 s (after {} ms)", c, t0.elapsed().as_millis()))),
                    Some(txt) => {
                        let v: Value = serde_json::from_str(&txt).map_err(|e| ("ws/not-json".to_string(), format!("{}: {}", e, txt)))?;
                        if v["action"] == "scrape" && v.get("files").is_some() {
                            // the fence reply: nothing but zero counts may be in it
                            if let Some(f) = v["files"].as_object() {
                                if f.values().any(|s| s["complete"] != 0 || s["incomplete"] != 0) {
                                    return Err(("ws/scrape-nonzero-for-unknown".into(), format!("fence scrape of never-announced torrents lists non-zero counts: {}", txt)));
                                }
                            }
                            break;
                        }
                        got.entry(c).or_default().push(v);
                    }
                }
            }
        }
        Ok(got)
    }

    fn step(&mut self, ev: &WEv) -> Result<(), Fail> {
        let wm = self.trk.swarm_workers;
        match ev {
            WEv::Close { c, abrupt } => {
                if let Some(conn) = self.conns[*c as usize].take() {
                    if *abrupt {
                        conn.ws.close_abrupt();
                    } else {
                        conn.ws.close_orderly();
                    }
                }
                self.model_close(*c);
                // every entry the connection created must disappear from every swarm worker without further client messages
                let t0 = Instant::now();
                loop {
                    let mut all_ok = true;
                    for t in 0..self.p.torrents {
                        let h = id20(&hash_for(self.ns, t, &self.pl, wm));
                        self.requests += 1;
                        self.monitor.send_text(json!({"action": "scrape", "info_hash": h}).to_string());
                        let txt = self.monitor.recv_text(5000).ok_or(("ws/fence-unanswered".to_string(), "monitor scrape not answered".to_string()))?;
                        let v: Value = serde_json::from_str(&txt).unwrap_or_default();
                        let got = v["files"].get(&h).map(|s| (s["complete"].as_u64().unwrap_or(0), s["incomplete"].as_u64().unwrap_or(0))).unwrap_or((0, 0));
                        if got != self.counts(t) {
                            all_ok = false;
                            if t0.elapsed() > Duration::from_secs(5) {
                                return Err(("ws/closed-connection-leaves-peers".into(), format!("5 s after connection {} was {} torrent {} is scraped as (complete, incomplete) = {:?}, expected {:?}", c, if *abrupt { "reset" } else { "closed" }, t, got, self.counts(t))));
                            }
                        }
                    }
                    if all_ok {
                        break;
                    }
                    std::thread::sleep(Duration::from_millis(5));
                }
                let extra = self.fence_all()?;
                if let Some((c2, m)) = extra.iter().next() {
                    return Err(("ws/unexpected-message".into(), format!("closing a connection made connection {} receive {:?}", c2, m)));
                }
                Ok(())
            }
            WEv::Scrape { c, v } => {
                self.ensure_open(*c)?;
                let ts: Vec<u8> = match v {
                    0 => vec![0],
                    _ => vec![0, 1.min(self.p.torrents - 1), 7],
                };
                let hs: Vec<String> = ts.iter().map(|t| id20(&hash_for(self.ns, if *t == 7 { 8 + (self.ns % wm as u64) as u8 } else { *t }, &self.pl, wm))).collect();
                let msg = if *v == 2 { json!({"action": "scrape"}) } else if hs.len() == 1 { json!({"action": "scrape", "info_hash": hs[0]}) } else { json!({"action": "scrape", "info_hash": hs}) };
                self.requests += 1;
                let conn = self.conns[*c as usize].as_mut().unwrap();
                conn.ws.send_text(msg.to_string());
                let txt = conn.ws.recv_text(5000).ok_or(("ws/no-reply/scrape".to_string(), "scrape not answered within 5 s".to_string()))?;
                let r: Value = serde_json::from_str(&txt).unwrap_or_default();
                if *v == 2 {
                    if r.get("failure reason").is_none() {
                        return Err(("ws/scrape-without-hashes".into(), format!("scrape without hashes answered with {}", txt)));
                    }
                } else {
                    let files = r["files"].as_object().ok_or(("ws/scrape-reply-shape".to_string(), format!("not a scrape reply: {}", txt)))?;
                    for (i, t) in ts.iter().enumerate() {
                        let exp = if *t == 7 { (0, 0) } else { self.counts(*t) };
                        let got = files.get(&hs[i]).map(|s| (s["complete"].as_u64().unwrap_or(0), s["incomplete"].as_u64().unwrap_or(0)));
                        if got.unwrap_or((0, 0)) != exp || (exp != (0, 0) && got.is_none()) {
                            return Err(("ws/scrape-counts".into(), format!("scrape reply lists torrent {} as {:?}, a single reference tracker says {:?} (merged reply: {})", t, got, exp, txt)));
                        }
                    }
                    for k in files.keys() {
                        if !hs.contains(k) {
                            return Err(("ws/scrape-foreign-torrent".into(), format!("scrape reply lists a torrent that was not requested: {}", txt)));
                        }
                    }
                }
                let extra = self.fence_all()?;
                if let Some((c2, m)) = extra.iter().next() {
                    return Err(("ws/unexpected-message".into(), format!("a scrape made connection {} receive {:?}", c2, m)));
                }
                Ok(())
            }
            WEv::Ann { .. } | WEv::Answer { .. } => {
                let (c, t, pid, kind, n_offers, answer): (u8, u8, u8, K, u8, Option<(u8, u32)>) = match ev {
                    WEv::Ann { c, t, own, k, offers } => (*c, *t, pid_of(*c, *own, self.p.conns), *k, *offers, None),
                    WEv::Answer { c, t } => {
                        let pid = self.recorded.get(c).and_then(|r| r.get(t)).cloned().unwrap_or(*c);
                        let a = self.inbox.get(c).and_then(|v| v.iter().find(|x| x.0 == *t)).map(|x| (x.1, x.2)).unwrap_or(((*c + 1) % self.p.conns, 0xdead_beef));
                        (*c, *t, pid, K::Leech, 0, Some(a))
                    }
                    _ => unreachable!(),
                };
                self.ensure_open(c)?;
                let gen = self.gens[c as usize];
                let h = hash_for(self.ns, t, &self.pl, wm);
                let offer_ids: Vec<u32> = (0..n_offers).map(|_| {
                    self.next_offer += 1;
                    self.next_offer
                }).collect();
                let mut msg = json!({"action": "announce", "info_hash": id20(&h), "peer_id": id20(&pid_bytes(self.ns, pid))});
                match kind {
                    K::Leech => msg["left"] = json!(5),
                    K::Seed => {
                        msg["left"] = json!(0);
                        msg["event"] = json!("completed");
                    }
                    K::Stop => msg["event"] = json!("stopped"),
                }
                if n_offers > 0 {
                    msg["numwant"] = json!(n_offers);
                    msg["offers"] = json!(offer_ids.iter().map(|o| json!({"offer": {"type": "offer", "sdp": format!("sdp-{}", o)}, "offer_id": id20(&oid_bytes(*o))})).collect::<Vec<_>>());
                }
                if let Some((to, oid)) = answer {
                    msg["answer"] = json!({"type": "answer", "sdp": format!("answer-to-{}", oid)});
                    msg["to_peer_id"] = json!(id20(&pid_bytes(self.ns, to)));
                    msg["offer_id"] = json!(id20(&oid_bytes(oid)));
                }
                self.requests += 1;
                self.conns[c as usize].as_mut().unwrap().ws.send_text(msg.to_string());

                // ---- socket worker rule: one peer id per torrent and connection
                let rec = self.recorded.entry(c).or_default();
                let second_id = matches!(rec.get(&t), Some(x) if *x != pid);
                if second_id {
                    let conn = self.conns[c as usize].as_mut().unwrap();
                    let txt = conn.ws.recv_text(5000);
                    let is_err = txt.as_ref().and_then(|t| serde_json::from_str::<Value>(t).ok()).map(|v| v.get("failure reason").is_some()).unwrap_or(false);
                    if let (Some(t), false) = (&txt, is_err) {
                        return Err(("ws/second-peer-id/answered".into(), format!("announcing a second peer id for a torrent was answered with {}", t)));
                    }
                    let closed = txt.is_none() || conn.ws.closed_within(5000);
                    if !closed {
                        return Err(("ws/second-peer-id/connection-stays-open".into(), "connection stays open after announcing a second peer id".into()));
                    }
                    self.pending_note = if is_err { None } else { Some(("ws/second-peer-id/error-reply-lost".to_string(), "announcing a second peer id: the connection is closed but the error message never reaches the client".to_string())) };
                    self.model_close(c);
                    // entries of the refused connection must disappear
                    return self.step_after_close_check(c);
                }
                if !rec.contains_key(&t) {
                    rec.insert(t, pid);
                }
                if kind == K::Stop {
                    rec.remove(&t);
                }
                // ---- swarm worker: ownership rule
                let ignored = self.torrents.get(&t).and_then(|m| m.get(&pid)).map(|p| p.owner != (c, gen)).unwrap_or(false);
                let mut exp_msgs: BTreeMap<u8, Vec<String>> = BTreeMap::new();
                let mut others: BTreeMap<u8, (u8, u32)> = BTreeMap::new();
                let mut exp_offers = 0usize;
                if !ignored {
                    let tor = self.torrents.entry(t).or_default();
                    match kind {
                        K::Stop => {
                            tor.remove(&pid);
                        }
                        k => {
                            let seeder = k == K::Seed;
                            tor.entry(pid).and_modify(|p| p.seeder = seeder).or_insert(MPeer { owner: (c, gen), seeder, expecting: BTreeSet::new() });
                        }
                    }
                    others = tor.iter().filter(|(p, _)| **p != pid).map(|(p, m)| (*p, m.owner)).collect();
                    if kind != K::Stop {
                        exp_offers = (n_offers as usize).min(2).min(others.len());
                    }
                    if tor.is_empty() {
                        self.torrents.remove(&t);
                    }
                }
                // ---- collect: the sender's own reply first (if one is due), then fence everybody
                let mut received: BTreeMap<u8, Vec<Value>> = BTreeMap::new();
                if !ignored {
                    // read until the announce reply shows up on the sender's connection
                    let conn = self.conns[c as usize].as_mut().unwrap();
                    let t0 = Instant::now();
                    loop {
                        match conn.ws.recv_text(5000) {
                            None => return Err(("ws/no-reply/announce".into(), format!("announce not answered within 5 s (waited {} ms)", t0.elapsed().as_millis()))),
                            Some(txt) => {
                                let v: Value = serde_json::from_str(&txt).unwrap_or_default();
                                let is_reply = v["action"] == "announce" && v.get("complete").is_some();
                                received.entry(c).or_default().push(v);
                                if is_reply {
                                    break;
                                }
                            }
                        }
                    }
                }
                for (k, v) in self.fence_all()? {
                    received.entry(k).or_default().extend(v);
                }
                let n = self.conns.len() as u8;
                if ignored {
                    if let Some((c2, m)) = received.iter().next() {
                        return Err(("ws/ownership/ignored-announce-had-effect".into(), format!("announce with a peer id owned by another connection made connection {} receive {:?}", c2, m)));
                    }
                    return Ok(());
                }
                // ---- classify what arrived
                let mut replies = 0;
                let mut offer_receivers: Vec<(u8, u32)> = Vec::new();
                let mut answers_seen: Vec<(u8, Value)> = Vec::new();
                let mut errors_seen: Vec<(u8, Value)> = Vec::new();
                for (rc, msgs) in &received {
                    for m in msgs {
                        if m.get("complete").is_some() && m["action"] == "announce" {
                            if *rc != c {
                                return Err(("ws/announce-reply-misrouted".into(), format!("announce reply delivered to connection {} instead of {}", rc, c)));
                            }
                            replies += 1;
                            let (s, l) = self.counts(t);
                            if m["complete"].as_u64() != Some(s) || m["incomplete"].as_u64() != Some(l) || m["info_hash"] != json!(id20(&h)) {
                                return Err(("ws/announce-counts".into(), format!("announce reply {} but a single reference tracker says complete={} incomplete={}", m, s, l)));
                            }
                        } else if m.get("offer").is_some() {
                            if *rc == n {
                                return Err(("ws/offer-misrouted".into(), "offer delivered to a connection that never announced".into()));
                            }
                            let q = others.iter().find(|(_, owner)| owner.0 == *rc && Some(owner.1) == self.conns[*rc as usize].as_ref().map(|x| x.gen)).map(|(q, _)| *q);
                            let Some(q) = q else {
                                return Err(("ws/offer-misrouted".into(), format!("offer from peer {} for torrent {} delivered to connection {}, which owns no other stored peer of that torrent (others: {:?})", pid, t, rc, others)));
                            };
                            let oid = offer_ids.iter().find(|o| m["offer_id"] == json!(id20(&oid_bytes(**o)))).cloned();
                            let Some(oid) = oid else {
                                return Err(("ws/offer-content".into(), format!("forwarded offer carries an offer id the sender did not use: {}", m)));
                            };
                            if m["peer_id"] != json!(id20(&pid_bytes(self.ns, pid))) || m["info_hash"] != json!(id20(&h)) || m["offer"]["sdp"] != json!(format!("sdp-{}", oid)) {
                                return Err(("ws/offer-content".into(), format!("forwarded offer is not tagged with the sender's peer id / torrent / sdp: {}", m)));
                            }
                            if offer_receivers.iter().any(|(r, _)| *r == q) || offer_receivers.iter().any(|(_, o)| *o == oid) {
                                return Err(("ws/offer-duplicate".into(), format!("two offers to one peer, or one offer forwarded twice: {:?} + ({}, {})", offer_receivers, q, oid)));
                            }
                            offer_receivers.push((q, oid));
                            self.inbox.entry(*rc).or_default().push((t, pid, oid));
                        } else if m.get("answer").is_some() {
                            answers_seen.push((*rc, m.clone()));
                        } else if m.get("failure reason").is_some() {
                            errors_seen.push((*rc, m.clone()));
                        } else {
                            return Err(("ws/unexpected-message".into(), format!("connection {} received {}", rc, m)));
                        }
                    }
                }
                let _ = &mut exp_msgs;
                if replies != 1 {
                    return Err(("ws/announce-reply-count".into(), format!("{} announce replies for one announce", replies)));
                }
                if offer_receivers.len() != exp_offers {
                    return Err(("ws/offer-count".into(), format!("{} offers forwarded, expected min(offers {}, max_offers 2, other peers {}) = {}", offer_receivers.len(), n_offers, others.len(), exp_offers)));
                }
                if let Some(p) = self.torrents.get_mut(&t).and_then(|m| m.get_mut(&pid)) {
                    for (q, oid) in &offer_receivers {
                        p.expecting.insert((*q, *oid));
                    }
                }
                // ---- answer
                let mut exp_answer_conn: Option<u8> = None;
                let mut exp_error = false;
                if let Some((to, oid)) = answer {
                    if kind != K::Stop {
                        if let Some(rcv) = self.torrents.get_mut(&t).and_then(|m| m.get_mut(&to)) {
                            if rcv.expecting.remove(&(pid, oid)) {
                                exp_answer_conn = Some(rcv.owner.0);
                                if let Some(v) = self.inbox.get_mut(&c) {
                                    v.retain(|x| !(x.0 == t && x.1 == to && x.2 == oid));
                                }
                            } else {
                                exp_error = true;
                            }
                        }
                    }
                }
                match (answers_seen.first(), exp_answer_conn) {
                    (None, None) => {}
                    (Some((rc, m)), Some(e)) => {
                        let (_, oid) = answer.unwrap();
                        if *rc != e || answers_seen.len() != 1 || m["offer_id"] != json!(id20(&oid_bytes(oid))) || m["peer_id"] != json!(id20(&pid_bytes(self.ns, pid))) || m["answer"]["sdp"] != json!(format!("answer-to-{}", oid)) {
                            return Err(("ws/answer-misrouted".into(), format!("answer delivered to connection {} ({} copies): {}; expected exactly one at the offering peer's connection {}", rc, answers_seen.len(), m, e)));
                        }
                    }
                    (Some((rc, m)), None) => return Err(("ws/answer-forwarded-without-offer".into(), format!("answer forwarded to connection {} although no matching unanswered offer exists: {}", rc, m))),
                    (None, Some(e)) => return Err(("ws/answer-not-forwarded".into(), format!("answer matches a pending offer but did not reach connection {}", e))),
                }
                for (rc, m) in &errors_seen {
                    if *rc != c || !exp_error {
                        return Err(("ws/unexpected-error".into(), format!("error message {} on connection {}", m, rc)));
                    }
                }
                Ok(())
            }
        }
    }

    fn step_after_close_check(&mut self, c: u8) -> Result<(), Fail> {
        let wm = self.trk.swarm_workers;
        let t0 = Instant::now();
        loop {
            let mut all_ok = true;
            for t in 0..self.p.torrents {
                let h = id20(&hash_for(self.ns, t, &self.pl, wm));
                self.requests += 1;
                self.monitor.send_text(json!({"action": "scrape", "info_hash": h}).to_string());
                let txt = self.monitor.recv_text(5000).ok_or(("ws/fence-unanswered".to_string(), "monitor scrape not answered".to_string()))?;
                let v: Value = serde_json::from_str(&txt).unwrap_or_default();
                let got = v["files"].get(&h).map(|s| (s["complete"].as_u64().unwrap_or(0), s["incomplete"].as_u64().unwrap_or(0))).unwrap_or((0, 0));
                if got != self.counts(t) {
                    all_ok = false;
                    if t0.elapsed() > Duration::from_secs(5) {
                        return Err(("ws/closed-connection-leaves-peers".into(), format!("5 s after connection {} was refused and closed, torrent {} is scraped as {:?}, expected {:?}", c, t, got, self.counts(t))));
                    }
                }
            }
            if all_ok {
                break;
            }
            std::thread::sleep(Duration::from_millis(5));
        }
        let extra = self.fence_all()?;
        if let Some((c2, m)) = extra.iter().next() {
            return Err(("ws/unexpected-message".into(), format!("a refused connection made connection {} receive {:?}", c2, m)));
        }
        Ok(())
    }
}

pub fn replay(trk: &Tracker, p: &Params, path: &[WEv], ns: u64, pl: &Placement) -> (u64, Option<Fail>) {
    replay_opt(trk, p, path, ns, pl, false)
}

/// `fresh`: the tracker was just started; connections 0 and 2 are opened first, each as the very first connection of
/// its socket worker, so that their per-worker connection ids coincide; the monitor connects afterwards
pub fn replay_opt(trk: &Tracker, p: &Params, path: &[WEv], ns: u64, pl: &Placement, fresh: bool) -> (u64, Option<Fail>) {
    let mut pre: Vec<Option<Conn>> = (0..p.conns).map(|_| None).collect();
    let mut gens = vec![0u32; p.conns as usize];
    if fresh {
        for c in [0usize, 2] {
            let addr = SocketAddr::new(IpAddr::V4(Ipv4Addr::LOCALHOST), trk.child.port + (pl.conn_worker[c] % trk.socket_workers) as u16);
            match WsConn::connect_patiently(addr) {
                Some(ws) => {
                    gens[c] = 1;
                    pre[c] = Some(Conn { ws, gen: 1 });
                }
                None => return (0, Some(("ws/connect-failed".into(), "connection failed".into()))),
            }
        }
    }
    let monitor = match WsConn::connect_patiently(SocketAddr::new(IpAddr::V4(Ipv4Addr::LOCALHOST), trk.child.port)) {
        Some(m) => m,
        None => return (0, Some(("ws/connect-failed".into(), "monitor connection failed".into()))),
    };
    let mut r = Replayer { trk, p, ns, pl: pl.clone(), conns: pre, gens, monitor, torrents: BTreeMap::new(), recorded: BTreeMap::new(), inbox: BTreeMap::new(), next_offer: (ns as u32) << 8, requests: 0, pending_note: None };
    let mut note = None;
    for (i, ev) in path.iter().enumerate() {
        if let Err((sig, what)) = r.step(ev) {
            return (r.requests, Some((sig, format!("{} [event {} of path {:?}; tracker {}; placement {:?}]", what, i, path, trk.label, pl))));
        }
        if let Some((sig, what)) = r.pending_note.take() {
            note = Some((sig, format!("{} [event {} of path {:?}; tracker {}]", what, i, path, trk.label)));
        }
    }
    (r.requests, note)
}

fn placements(sw: u8, wm: u8, conns: u8, torrents: u8) -> Vec<Placement> {
    fn canon(n: u8, k: u8) -> Vec<Vec<u8>> {
        let mut out = vec![vec![]];
        for _ in 0..n {
            let mut next = Vec::new();
            for a in &out {
                let used = a.iter().max().map(|m| m + 1).unwrap_or(0);
                for w in 0..=(used.min(k - 1)) {
                    let mut b: Vec<u8> = a.clone();
                    b.push(w);
                    next.push(b);
                }
            }
            out = next;
        }
        out
    }
    let mut v = Vec::new();
    for c in canon(conns, sw) {
        for t in canon(torrents, wm) {
            v.push(Placement { conn_worker: c.clone(), torrent_worker: t });
        }
    }
    // "first connection on worker 0 and first connection on worker 1" (coinciding slot keys) comes first when there are two workers
    v.sort_by_key(|p| if p.conn_worker.len() >= 2 && p.conn_worker[0] != p.conn_worker[1] { 0 } else { 1 });
    v
}

static NS: AtomicU64 = AtomicU64::new(1);


/// Pipelined bursts: `n` requests written to one connection in a single flush; every one of them must be answered,
/// and every offer forwarded to the one other member of the torrent must arrive.
/// Returns (scrape replies, announce replies, offers received by the other peer).
pub fn burst(trk: &Tracker, ns: u64, n: usize, sender_worker: u8, receiver_worker: u8) -> (usize, usize, usize) {
    let pl = Placement { conn_worker: vec![sender_worker, receiver_worker, 0], torrent_worker: vec![0, 1] };
    let addr = |w: u8| SocketAddr::new(IpAddr::V4(Ipv4Addr::LOCALHOST), trk.child.port + (w % trk.socket_workers) as u16);
    let h = id20(&hash_for(ns, 0, &pl, trk.swarm_workers));
    let mut a = WsConn::connect_patiently(addr(receiver_worker)).unwrap_or_else(|| machinery_failure(&format!("burst: connect (n = {}) to {:?}/{:?} of {}; tracker printed {:?}", n, addr(sender_worker), addr(receiver_worker), trk.label, trk.child.stdout_lines.lock().unwrap())));
    let mut b = WsConn::connect_patiently(addr(sender_worker)).unwrap_or_else(|| machinery_failure(&format!("burst: connect (n = {}) to {:?}/{:?} of {}; tracker printed {:?}", n, addr(sender_worker), addr(receiver_worker), trk.label, trk.child.stdout_lines.lock().unwrap())));
    // receiver joins the torrent
    a.send_text(json!({"action": "announce", "info_hash": h, "peer_id": id20(&pid_bytes(ns, 1)), "numwant": 0, "left": 1, "event": "started"}).to_string());
    let _ = a.recv_text(3000);
    // 1. n pipelined scrapes
    for _ in 0..n {
        let _ = b.ws.write(tungstenite::Message::text(json!({"action": "scrape", "info_hash": [h.clone()]}).to_string()));
    }
    let _ = b.ws.flush();
    let mut scrapes = 0;
    while let Some(t) = b.recv_text(if scrapes < n { 1000 } else { 60 }) {
        if t.contains("\"scrape\"") {
            scrapes += 1;
        }
    }
    // 2. n pipelined announces with one offer each
    for i in 0..n {
        let m = json!({"action": "announce", "info_hash": h, "peer_id": id20(&pid_bytes(ns, 2)), "numwant": 1, "left": 1,
            "offers": [{"offer_id": id20(&oid_bytes(i as u32)), "offer": {"type": "offer", "sdp": "x"}}]});
        let _ = b.ws.write(tungstenite::Message::text(m.to_string()));
    }
    let _ = b.ws.flush();
    let mut announces = 0;
    while let Some(t) = b.recv_text(if announces < n { 1000 } else { 60 }) {
        if t.contains("\"complete\"") {
            announces += 1;
        }
    }
    let mut offers = 0;
    while let Some(t) = a.recv_text(if offers < n { 1000 } else { 60 }) {
        if t.contains("\"offer_id\"") {
            offers += 1;
        }
    }
    (scrapes, announces, offers)
}

/// Connections the tracker closes itself (idle for longer than max_connection_idle): their peers must disappear too.
/// A announces two torrents living on different swarm workers and goes silent; a monitor connection keeps scraping.
pub fn idle_close_phase(sw: u8, wm: u8) -> (u64, Vec<(String, String, Value)>) {
    let trk = start_tracker_cleaning(sw, wm, json!({"max_peer_age": 100000, "max_offer_age": 100000, "torrent_cleaning_interval": 100000, "max_connection_idle": 2, "connection_cleaning_interval": 1}));
    let mut out = Vec::new();
    let addr = |w: u8| SocketAddr::new(IpAddr::V4(Ipv4Addr::LOCALHOST), trk.child.port + (w % trk.socket_workers) as u16);
    let ns = NS.fetch_add(1, Ordering::Relaxed);
    let pl = Placement { conn_worker: vec![1, 0, 0], torrent_worker: vec![0, 1] };
    let (h0, h1) = (id20(&hash_for(ns, 0, &pl, wm)), id20(&hash_for(ns, 1, &pl, wm)));
    let d = json!({"idle_close": true, "socket_workers": sw, "swarm_workers": wm});
    let (Some(mut a), Some(mut m)) = (WsConn::connect_patiently(addr(1)), WsConn::connect_patiently(addr(0))) else {
        machinery_failure("idle-close phase: could not connect");
    };
    for (h, left) in [(&h0, 0), (&h1, 1)] {
        a.send_text(json!({"action": "announce", "info_hash": h, "peer_id": id20(&pid_bytes(ns, 1)), "numwant": 0, "left": left, "event": "started"}).to_string());
        if a.recv_text(5000).is_none() {
            out.push(("ws/announce-unanswered".into(), "plain announce not answered".into(), d));
            return (1, out);
        }
    }
    let scrape = |m: &mut WsConn| -> Option<(u64, u64)> {
        m.send_text(json!({"action": "scrape", "info_hash": [h0.clone(), h1.clone()]}).to_string());
        let t = m.recv_text(5000)?;
        let v: Value = serde_json::from_str(&t).ok()?;
        let files = v.get("files")?.as_object()?;
        let tot = |k: &str| files.values().map(|f| f.get(k).and_then(|x| x.as_u64()).unwrap_or(0)).sum::<u64>();
        Some((tot("complete"), tot("incomplete")))
    };
    if scrape(&mut m) != Some((1, 1)) {
        out.push(("ws/scrape-counts".into(), "monitor does not see the two entries just announced".into(), d));
        return (1, out);
    }
    let t0 = Instant::now();
    let mut closed_at = None;
    let mut gone_at = None;
    while t0.elapsed() < Duration::from_secs(20) {
        if closed_at.is_none() && a.closed_within(300) {
            closed_at = Some(t0.elapsed());
        }
        match scrape(&mut m) {
            Some((0, 0)) => {
                gone_at = Some(t0.elapsed());
                break;
            }
            Some(_) => {}
            None => {
                out.push(("ws/fence-unanswered".into(), "monitor scrape not answered".into(), d));
                return (1, out);
            }
        }
        if let Some(c) = closed_at {
            // five seconds after the tracker closed the connection the entries are still counted
            if t0.elapsed() > c + Duration::from_secs(5) {
                break;
            }
        }
        std::thread::sleep(Duration::from_millis(100));
    }
    match (closed_at, gone_at) {
        (None, None) => machinery_failure(&format!("idle-close phase vacuous: the tracker did not close the idle connection within 20 s (max_connection_idle = 2) [{}]", trk.label)),
        (Some(c), None) => out.push(("ws/idle-closed-connection-leaves-peers".into(), format!("the tracker closed an idle connection after {:.1} s, five seconds later its two peer entries (torrents on different swarm workers) are still counted by a scrape [{}]", c.as_secs_f64(), trk.label), d)),
        _ => {}
    }
    (1, out)
}

/// Judge one burst: up to 16 messages in flight towards a connection must all arrive; beyond that, losses are reported under
/// their own signatures (the per-connection channel between the socket worker and the connection's writer has 16 slots)
fn judge_burst(sw: u8, wm: u8, n: usize, s_w: u8, r_w: u8, r: (usize, usize, usize)) -> Vec<(String, String, Value)> {
    let mut v = Vec::new();
    let d = json!({"burst": {"n": n, "sender_worker": s_w, "receiver_worker": r_w}, "socket_workers": sw, "swarm_workers": wm});
    for (kind, got) in [("scrape-replies", r.0), ("announce-replies", r.1), ("offers", r.2)] {
        if got != n {
            let sig = if n <= 16 { format!("ws/burst/{}-lost", kind) } else { format!("ws/burst/over-16-in-flight/{}-lost", kind) };
            v.push((sig, format!("{} requests written to one connection in a single flush (socket_workers={} swarm_workers={}, sender on socket worker {}, the torrent's other member on {}): {} of {} {} arrived", n, sw, wm, s_w, r_w, got, n, kind), d.clone()));
        }
    }
    v
}

/// Pipelined bursts against fresh trackers: every n up to the 16 slots of the per-connection channel, and a few beyond
fn burst_phase(th: bool, configs: &[(u8, u8)]) -> (Vec<(String, String, Value)>, u64) {
    let burst_cfgs: Vec<(u8, u8)> = if th { configs.to_vec() } else { vec![(1, 1), (2, 2)] };
    let burst_ns: Vec<usize> = (1..=16).chain(if th { vec![17usize, 24, 64, 200] } else { vec![17, 64] }).collect();
    // started from this thread: PR_SET_PDEATHSIG fires when the spawning *thread* exits
    let burst_trackers: Vec<Tracker> = burst_cfgs.iter().map(|&(sw, wm)| start_tracker(sw, wm)).collect();
    let mut burst_jobs: Vec<(usize, usize, u8, u8)> = Vec::new();
    for (ti, &(sw, _)) in burst_cfgs.iter().enumerate() {
        for &n in &burst_ns {
            burst_jobs.push((ti, n, 0, 0));
            if sw > 1 {
                burst_jobs.push((ti, n, 0, 1));
            }
        }
    }
    let burst_res = par_map(&burst_jobs, 8, |&(ti, n, s_w, r_w)| {
        let trk = &burst_trackers[ti];
        let (sw, wm) = burst_cfgs[ti];
        let mut r = burst(trk, NS.fetch_add(1, Ordering::Relaxed), n, s_w, r_w);
        if n <= 16 && r != (n, n, n) {
            // only a loss that reproduces counts
            r = burst(trk, NS.fetch_add(1, Ordering::Relaxed), n, s_w, r_w);
        }
        judge_burst(sw, wm, n, s_w, r_w, r)
    });
    drop(burst_trackers);
    let mut seen = BTreeSet::new();
    let mut out = Vec::new();
    for v in burst_res {
        for (sig, what, d) in v {
            // one report per signature
            if seen.insert(sig.clone()) {
                out.push((sig, what, d));
            }
        }
    }
    (out, burst_jobs.len() as u64)
}

/// Send one text message in frames of at most 12000 bytes (websocket_max_frame_size is 16 KiB by default)
pub fn send_fragmented(c: &mut WsConn, text: &str) -> bool {
    use tungstenite::protocol::frame::coding::{Data, OpCode};
    use tungstenite::protocol::frame::Frame;
    let bytes = text.as_bytes();
    let chunks: Vec<&[u8]> = bytes.chunks(12_000).collect();
    let mut ok = true;
    for (ci, ch) in chunks.iter().enumerate() {
        let op = if ci == 0 { OpCode::Data(Data::Text) } else { OpCode::Data(Data::Continue) };
        ok &= c.ws.write(tungstenite::Message::Frame(Frame::message(ch.to_vec(), op, ci + 1 == chunks.len()))).is_ok();
    }
    ok && c.ws.flush().is_ok()
}

/// Large messages: forwarded offers and answers of every size class up to the message size limit, and scrape replies for
/// up to max_scrape_torrents torrents whose identifiers take six JSON bytes per character. Every one must be delivered
/// whole and leave the connections usable. Returns (cases, violations).
pub fn sizes_phase(sw: u8, wm: u8, thorough: bool) -> (u64, Vec<(String, String, Value)>) {
    let trk = start_tracker(sw, wm);
    let mut out: Vec<(String, String, Value)> = Vec::new();
    let mut cases = 0u64;
    let addr = |w: u8| SocketAddr::new(IpAddr::V4(Ipv4Addr::LOCALHOST), trk.child.port + (w % trk.socket_workers) as u16);
    // SDP sizes: around every multiple of 8 KiB of the forwarded message (its envelope is ~240 bytes), a dense band around
    // 24 KiB (three times the default write buffer), and the largest announce that fits websocket_max_message_size
    let mut sizes: BTreeSet<usize> = BTreeSet::new();
    for j in 1..=7usize {
        for d in [-300i64, -241, -236, -1, 0, 1, 64] {
            sizes.insert((j as i64 * 8192 + d - 241).max(1) as usize);
        }
    }
    let step = if thorough { 1 } else { 8 };
    for l in (24_200..=24_700usize).step_by(step) {
        sizes.insert(l - 241);
    }
    for s in [1usize, 100, 1000, 60_000, 64_000, 65_000, 65_100] {
        sizes.insert(s);
    }
    for (i, size) in sizes.iter().enumerate() {
        let ns = NS.fetch_add(1, Ordering::Relaxed);
        let pl = Placement { conn_worker: vec![0, 1, 0], torrent_worker: vec![i as u8 % wm, 0] };
        let h = id20(&hash_for(ns, 0, &pl, wm));
        let (Some(mut a), Some(mut b)) = (WsConn::connect_patiently(addr(1)), WsConn::connect_patiently(addr(0))) else {
            out.push(("ws/connect-failed".into(), "connect failed".into(), json!({"sizes": true})));
            break;
        };
        let d = json!({"sizes": {"sdp_bytes": size}, "socket_workers": sw, "swarm_workers": wm});
        let m = json!({"action": "announce", "info_hash": h, "peer_id": id20(&pid_bytes(ns, 2)), "numwant": 1, "left": 1, "offers": [{"offer_id": id20(&oid_bytes(1)), "offer": {"type": "offer", "sdp": "s".repeat(*size)}}]}).to_string();
        if m.len() > 64 * 1024 {
            continue; // beyond websocket_max_message_size: not an accepted request
        }
        cases += 1;
        a.send_text(json!({"action": "announce", "info_hash": h, "peer_id": id20(&pid_bytes(ns, 1)), "numwant": 0, "left": 1, "event": "started"}).to_string());
        if a.recv_text(5000).is_none() {
            out.push(("ws/announce-unanswered".into(), "plain announce not answered".into(), d));
            continue;
        }
        send_fragmented(&mut b, &m);
        let b_reply = b.recv_text(5000);
        let a_got = a.recv_text(5000);
        let offer_ok = a_got.as_ref().map(|t| t.contains("\"offer_id\"") && t.matches('s').count() >= *size).unwrap_or(false);
        a.send_text(json!({"action": "scrape", "info_hash": h}).to_string());
        let a_alive = a.recv_text(5000).is_some();
        if b_reply.is_none() || !offer_ok || !a_alive {
            out.push(("ws/large-offer-not-delivered".into(), format!("announce with one offer of {} SDP bytes ({} bytes in all, accepted): sender got its reply: {}, the offer reached the other member whole: {}, the receiver's connection is still usable: {} [socket_workers={} swarm_workers={}]", size, m.len(), b_reply.is_some(), offer_ok, a_alive, sw, wm), d.clone()));
            continue;
        }
        // the answer travels the other way
        let ans = json!({"action": "announce", "info_hash": h, "peer_id": id20(&pid_bytes(ns, 1)), "numwant": 0, "left": 1, "answer": {"type": "answer", "sdp": "t".repeat(*size)}, "to_peer_id": id20(&pid_bytes(ns, 2)), "offer_id": id20(&oid_bytes(1))}).to_string();
        if ans.len() > 64 * 1024 {
            continue;
        }
        send_fragmented(&mut a, &ans);
        let mut answer_ok = false;
        for _ in 0..2 {
            if let Some(t) = b.recv_text(5000) {
                if t.contains("\"answer\"") && t.matches('t').count() >= *size {
                    answer_ok = true;
                    break;
                }
            }
        }
        b.send_text(json!({"action": "scrape", "info_hash": h}).to_string());
        let b_alive = b.recv_text(5000).is_some();
        if !answer_ok || !b_alive {
            out.push(("ws/large-answer-not-delivered".into(), format!("answer of {} SDP bytes to a forwarded offer: reached the offering peer whole: {}, that peer's connection is still usable: {} [socket_workers={} swarm_workers={}]", size, answer_ok, b_alive, sw, wm), d));
        }
    }
    // scrape replies
    let mut ns_list: Vec<usize> = vec![1, 100, 140, 200, 254, 255, 256, 300];
    ns_list.extend(150..=165);
    for n in ns_list {
        cases += 1;
        let Some(mut c) = WsConn::connect_patiently(addr(0)) else { break };
        let tag = NS.fetch_add(1, Ordering::Relaxed);
        let mut hashes = Vec::new();
        for t in 0..n {
            // control characters: six JSON bytes each; first byte spreads the torrents over the swarm workers
            let mut h = [1u8; 20];
            h[0] = (t % wm as usize) as u8;
            h[1] = (t % 31) as u8 + 1;
            h[2] = (t / 31) as u8 + 1;
            h[3..11].copy_from_slice(&tag.to_be_bytes().map(|x| x % 32));
            hashes.push(id20(&h));
            c.send_text(json!({"action": "announce", "info_hash": id20(&h), "peer_id": id20(&pid_bytes(tag, 1)), "numwant": 0, "left": 1, "event": "started"}).to_string());
            let _ = c.recv_text(5000);
        }
        let req = json!({"action": "scrape", "info_hash": hashes}).to_string();
        send_fragmented(&mut c, &req);
        let r = c.recv_text(5000);
        let files = r.as_ref().and_then(|t| serde_json::from_str::<Value>(t).ok()).and_then(|v| v.get("files").and_then(|f| f.as_object().map(|o| o.len())));
        c.send_text(json!({"action": "scrape", "info_hash": id20(&[9u8; 20])}).to_string());
        let alive = c.recv_text(5000).is_some();
        // beyond max_scrape_torrents (255, applied by each swarm worker) the properties define no count: any cut between the
        // limit and the request is accepted there
        let count_ok = match files {
            Some(f) if n <= 255 => f == n,
            Some(f) => (255..=n).contains(&f),
            None => false,
        };
        if !count_ok || !alive {
            out.push(("ws/large-scrape-unanswered".into(), format!("scrape of {} torrents that all have a peer (request {} bytes, identifiers of control characters): reply lists {:?} torrents ({} bytes), expected {}{}; connection usable afterwards: {} [socket_workers={} swarm_workers={}]", n, req.len(), files, r.map(|t| t.len()).unwrap_or(0), n.min(255), if n > 255 { " or more" } else { "" }, alive, sw, wm), json!({"sizes": {"scrape_torrents": n}, "socket_workers": sw, "swarm_workers": wm})));
        }
    }
    (cases, out)
}

pub fn main(args: &Args) -> ! {
    if std::env::var("AQV_C17_SIZE").is_ok() {
        let (n, v) = sizes_phase(2, 2, args.tier.thorough());
        println!("cases {} -> {:#?}", n, v.iter().map(|x| (&x.0, &x.1)).collect::<Vec<_>>());
        std::process::exit(0);
    }

    if std::env::var("AQV_C17_BURST_ONLY").is_ok() {
        let (v, n) = burst_phase(args.tier.thorough(), &[(1, 1), (1, 2), (2, 1), (2, 2), (3, 3)]);
        println!("bursts {} -> {:#?}", n, v.iter().map(|x| (&x.0, &x.1)).collect::<Vec<_>>());
        std::process::exit(0);
    }


    let mut run = Run::new(args, "model_checking");
    let th = args.tier.thorough();
    run.set("engine", "netmc: breadth-first enumeration of event sequences over an abstract reference model (announce with own / another connection's peer id, offers, answers, scrapes merged over swarm workers, orderly and abrupt close); every explored transition is replayed with its BFS-tree path in a fresh namespace against aquatic_ws::run in child processes; after every event every connection (plus a monitor connection) is fenced with a scrape covering all swarm workers and the messages each connection received are compared with a reference tracker that follows the implementation's (random) choice of offer receivers after checking its legality");
    run.assume("executor scheduling inside the tracker is not controlled; paths issue one request at a time, pipelining is covered by the burst phase (1..=16, 17, 24, 64, 200 requests in one flush), message sizes by the large-message phase");
    run.assume("path enumeration deduplicates on an abstract state that ignores pending offers");
    let p_main = Params { conns: 3, torrents: 2, offers: vec![0, 3], kinds: vec![K::Leech, K::Seed, K::Stop], foreign: true, answers: true, scrapes: vec![1, 2] };
    let depth = if th { 3 } else { 2 };
    let (mut paths, states) = model_paths(&p_main, depth);
    // deeper on a signalling-focused alphabet
    let p_sig = Params { conns: 3, torrents: 1, offers: vec![2], kinds: vec![K::Leech, K::Stop], foreign: false, answers: true, scrapes: vec![] };
    let (paths_sig, states_sig) = model_paths(&p_sig, if th { 5 } else { 4 });
    let n_main = paths.len();
    paths.extend(paths_sig.into_iter().filter(|p| p.len() >= 3));

    if let Some(rp) = &args.replay {
        let r = load_replay(rp);
        let d = &r["detail"];
        if d.get("sizes").is_some() {
            let (sw, wm) = (d["socket_workers"].as_u64().unwrap_or(1) as u8, d["swarm_workers"].as_u64().unwrap_or(1) as u8);
            let (_, v) = sizes_phase(sw, wm, false);
            for (sig, what, d) in v {
                run.violation(sig, what, d);
            }
            run.set("states", 1);
            run.finish();
        }
        if let Some(b) = d.get("burst") {
            let (sw, wm) = (d["socket_workers"].as_u64().unwrap_or(1) as u8, d["swarm_workers"].as_u64().unwrap_or(1) as u8);
            let trk = start_tracker(sw, wm);
            let (n, s_w, r_w) = (b["n"].as_u64().unwrap_or(17) as usize, b["sender_worker"].as_u64().unwrap_or(0) as u8, b["receiver_worker"].as_u64().unwrap_or(0) as u8);
            let r = burst(&trk, 777_002, n, s_w, r_w);
            for (sig, what, d) in judge_burst(sw, wm, n, s_w, r_w, r) {
                run.violation(sig, what, d);
            }
            run.set("states", 1);
            run.finish();
        }
        let path: Vec<WEv> = serde_json::from_value(d["path"].clone()).unwrap_or_else(|e| machinery_failure(&format!("bad path: {}", e)));
        let trk = start_tracker(d["socket_workers"].as_u64().unwrap_or(1) as u8, d["swarm_workers"].as_u64().unwrap_or(1) as u8);
        let pl = Placement { conn_worker: serde_json::from_value(d["conn_worker"].clone()).unwrap_or(vec![0, 1, 2]), torrent_worker: serde_json::from_value(d["torrent_worker"].clone()).unwrap_or(vec![0, 1]) };
        let (_, v) = replay_opt(&trk, &p_main, &path, 777_001, &pl, d["fresh"].as_bool().unwrap_or(false));
        if let Some((sig, what)) = v {
            run.violation(sig, what, d.clone());
        }
        run.set("states", 1);
        run.set("transitions", path.len());
        run.set("traces_validated_against_impl", 1);
        run.finish();
    }

    let configs: Vec<(u8, u8)> = if th { (1..=3).flat_map(|a| (1..=3).map(move |b| (a, b))).collect() } else { vec![(1, 1), (2, 2), (3, 3)] };
    let viols: Mutex<Vec<(String, String, Value)>> = Mutex::new(Vec::new());
    let total_requests = AtomicU64::new(0);
    let total_paths = AtomicU64::new(0);
    std::thread::scope(|s| {
        for (sw, wm) in configs.iter().cloned() {
            let (viols, total_requests, total_paths, paths, p_main) = (&viols, &total_requests, &total_paths, &paths, &p_main);
            s.spawn(move || {
                let trk = start_tracker(sw, wm);
                let pls = placements(sw, wm, 3, 2);
                let mut work: Vec<(&Vec<WEv>, Placement)> = paths.iter().enumerate().map(|(i, p)| (p, pls[i % pls.len()].clone())).collect();
                // every placement for the short paths that involve two connections using one peer id, or offers
                for p in paths.iter().filter(|p| p.len() == 2 && p.iter().any(|e| matches!(e, WEv::Ann { own: false, .. } | WEv::Ann { offers: 3, .. }))) {
                    for pl in pls.iter().skip(1) {
                        work.push((p, pl.clone()));
                    }
                }
                // a tracker that stops answering altogether is reported at once
                let failing = AtomicU64::new(0);
                let stopped = AtomicU64::new(0);
                // many failing paths mean a defect that the shortest of them shows: the rest is skipped (every failure costs
                // seconds of timeouts), and at most a dozen are replayed on their own afterwards
                let failed_total = AtomicU64::new(0);
                let res = par_map(&work, 5, |(path, pl)| {
                    if stopped.load(Ordering::Relaxed) != 0 || failed_total.load(Ordering::Relaxed) >= 60 {
                        return ((0, None), (*path).clone(), pl.clone());
                    }
                    let ns = NS.fetch_add(1, Ordering::Relaxed);
                    let params = Params { conns: 3, torrents: 2, offers: p_main.offers.clone(), kinds: p_main.kinds.clone(), foreign: true, answers: true, scrapes: p_main.scrapes.clone() };
                    let r = replay(&trk, &params, path, ns, pl);
                    // a tracker whose run() has returned is not a tracker that is hard to reach
                    if r.1.is_some() {
                        if let Some(line) = trk.child.line_with_wait("RUN-RETURNED", 300) {
                            if stopped.swap(1, Ordering::Relaxed) == 0 {
                                viols.lock().unwrap().push(("ws/tracker-exited".to_string(), format!("{}: the tracker's run() returned while requests were being served ({}); last path: {:?}, outcome {:?}", trk.label, line, path, r.1), json!({"path": path, "socket_workers": sw, "swarm_workers": wm, "conn_worker": pl.conn_worker, "torrent_worker": pl.torrent_worker})));
                            }
                            return ((r.0, None), (*path).clone(), pl.clone());
                        }
                    }
                    if r.1.as_ref().map(|(sig, _)| sig != "ws/second-peer-id/error-reply-lost").unwrap_or(false) {
                        failed_total.fetch_add(1, Ordering::Relaxed);
                    }
                    match &r.1 {
                        Some((sig, _)) if sig != "ws/second-peer-id/error-reply-lost" => {
                            if failing.fetch_add(1, Ordering::Relaxed) >= 8 && stopped.load(Ordering::Relaxed) == 0 {
                                let alive = |k: u64| -> bool {
                                    let addr = SocketAddr::new(IpAddr::V4(Ipv4Addr::LOCALHOST), trk.child.port);
                                    match WsConn::connect(addr) {
                                        Some(mut c) => {
                                            let mut h = [0x5bu8; 20];
                                            h[..8].copy_from_slice(&(ns + k).to_be_bytes());
                                            c.send_text(json!({"action": "scrape", "info_hash": id20(&h)}).to_string()) && c.recv_text(10_000).is_some()
                                        }
                                        None => false,
                                    }
                                };
                                if !alive(0) && !alive(1) && !alive(2) && !alive(3) && stopped.swap(1, Ordering::Relaxed) == 0 {
                                    let threads = proc_thread_states(trk.child.child.id());
                                    viols.lock().unwrap().push(("ws/tracker-stopped-answering".to_string(), format!("{}: after {} consecutive failing paths the tracker does not answer a scrape on a fresh connection either (four attempts, 10 s each); process alive, threads: {:?}", trk.label, failing.load(Ordering::Relaxed), threads), json!({"path": path, "socket_workers": sw, "swarm_workers": wm, "conn_worker": pl.conn_worker, "torrent_worker": pl.torrent_worker})));
                                }
                            }
                        }
                        _ => failing.store(0, Ordering::Relaxed),
                    }
                    (r, (*path).clone(), pl.clone())
                });
                if stopped.load(Ordering::Relaxed) != 0 {
                    return;
                }
                // shortest failing paths first
                let mut res = res;
                res.sort_by_key(|r| if (r.0).1.is_some() { r.1.len() } else { usize::MAX });
                let mut reruns = 0;
                for ((req, v), path, pl) in res {
                    total_requests.fetch_add(req, Ordering::Relaxed);
                    total_paths.fetch_add(1, Ordering::Relaxed);
                    if let Some((sig, what)) = v {
                        if sig != "ws/second-peer-id/error-reply-lost" {
                            reruns += 1;
                            if reruns > 12 {
                                continue;
                            }
                        }
                        if sig == "ws/second-peer-id/error-reply-lost" {
                            // not timing related (the connection is closed without the message every time)
                            viols.lock().unwrap().push((sig, what, json!({"path": path, "socket_workers": sw, "swarm_workers": wm, "conn_worker": pl.conn_worker, "torrent_worker": pl.torrent_worker})));
                            continue;
                        }
                        // replay the failing path on its own; only a failure that reproduces counts
                        let params = Params { conns: 3, torrents: 2, offers: p_main.offers.clone(), kinds: p_main.kinds.clone(), foreign: true, answers: true, scrapes: p_main.scrapes.clone() };
                        let (_, again) = replay(&trk, &params, &path, NS.fetch_add(1, Ordering::Relaxed), &pl);
                        if let Some((sig2, what2)) = again {
                            if sig2 == sig {
                                viols.lock().unwrap().push((sig2, what2, json!({"path": path, "socket_workers": sw, "swarm_workers": wm, "conn_worker": pl.conn_worker, "torrent_worker": pl.torrent_worker})));
                            }
                        }
                    }
                }
            });
        }
    });
    // ---- ownership with coinciding per-worker connection ids: one fresh 2-worker tracker per path, connection 0 is the
    // first connection of socket worker 0, connection 2 the first of socket worker 1; connection 2 uses peer id P0
    let fresh_paths: Vec<Vec<WEv>> = {
        let a = |k: K| WEv::Ann { c: 0, t: 0, own: true, k, offers: 0 };
        let b = |k: K| WEv::Ann { c: 2, t: 0, own: false, k, offers: 0 };
        let mut v = Vec::new();
        for ka in [K::Leech, K::Seed] {
            for kb in [K::Leech, K::Seed, K::Stop] {
                v.push(vec![a(ka), b(kb)]);
                v.push(vec![a(ka), b(kb), WEv::Close { c: 2, abrupt: false }]);
                v.push(vec![a(ka), b(kb), WEv::Close { c: 2, abrupt: true }]);
                v.push(vec![a(ka), b(kb), a(K::Stop)]);
                v.push(vec![b(kb), a(ka), WEv::Close { c: 0, abrupt: false }]);
            }
        }
        v
    };
    let fresh_pl = Placement { conn_worker: vec![0, 0, 1], torrent_worker: vec![0, 1] };
    let fresh_res = par_map(&fresh_paths, 12, |path| {
        let trk = start_tracker(2, 2);
        let params = Params { conns: 3, torrents: 2, offers: vec![], kinds: vec![], foreign: true, answers: false, scrapes: vec![] };
        let ns = NS.fetch_add(1, Ordering::Relaxed);
        (replay_opt(&trk, &params, path, ns, &fresh_pl, true), path.clone())
    });
    for ((req, v), path) in fresh_res {
        total_requests.fetch_add(req, Ordering::Relaxed);
        total_paths.fetch_add(1, Ordering::Relaxed);
        if let Some((sig, _)) = v {
            // once more on its own (12 trackers were starting side by side): only a failure that reproduces counts
            let trk = start_tracker(2, 2);
            let params = Params { conns: 3, torrents: 2, offers: vec![], kinds: vec![], foreign: true, answers: false, scrapes: vec![] };
            let (_, again) = replay_opt(&trk, &params, &path, NS.fetch_add(1, Ordering::Relaxed), &fresh_pl, true);
            if let Some((sig2, what2)) = again {
                if sig2 == sig {
                    viols.lock().unwrap().push((sig2, format!("{} [fresh tracker, coinciding connection ids]", what2), json!({"path": path, "socket_workers": 2, "swarm_workers": 2, "conn_worker": [0, 0, 1], "torrent_worker": [0, 1], "fresh": true})));
                }
            }
        }
    }
    run.set("fresh_tracker_ownership_paths", fresh_paths.len() as u64);
    // ---- pipelined bursts: n requests in one flush on one connection
    let (burst_viols, bursts) = burst_phase(th, &configs);
    viols.lock().unwrap().extend(burst_viols);
    // ---- large messages (forwarded offers / answers up to the message size limit, scrape replies up to the scrape limit)
    let size_cfgs: Vec<(u8, u8)> = if th { vec![(1, 1), (2, 2), (3, 3), (1, 3), (3, 1)] } else { vec![(1, 1), (2, 2)] };
    let mut size_cases = 0u64;
    for &(sw, wm) in &size_cfgs {
        let (n, v) = sizes_phase(sw, wm, th);
        size_cases += n;
        let mut seen = BTreeSet::new();
        for x in v {
            // the smallest failing size of each kind per configuration
            if seen.insert(x.0.clone()) {
                viols.lock().unwrap().push(x);
            }
        }
    }
    run.set("large_message_cases", size_cases);
    // ---- connections closed by the tracker itself (idle)
    let mut idle_cases = 0u64;
    for &(sw, wm) in &size_cfgs {
        let (n, v) = idle_close_phase(sw, wm);
        idle_cases += n;
        viols.lock().unwrap().extend(v);
    }
    run.set("idle_close_cases", idle_cases);
    run.set("pipelined_bursts", bursts);
    let mut vs = viols.into_inner().unwrap();
    vs.sort_by_key(|v| v.2["path"].as_array().map(|a| a.len()).unwrap_or(99));
    for (sig, what, d) in vs {
        if sig == "ws/connect-failed" {
            // not being able to connect (six attempts over 30 s) is not an observation of the tracker's replies;
            // a tracker that stops serving altogether is reported by the stopped-answering probe with its thread states
            machinery_failure(&format!("could not connect to a tracker: {} ({})", what, d));
        }
        run.violation(sig, what, d);
    }
    run.set("states", (states + states_sig) as u64);
    run.set("transitions", paths.len() as u64);
    run.set("transitions_main_alphabet", n_main as u64);
    run.set("traces_validated_against_impl", total_paths.load(Ordering::Relaxed));
    run.set("websocket_messages_sent", total_requests.load(Ordering::Relaxed));
    run.set("configurations", configs.len() as u64);
    run.set("max_depth", if th { 5u64 } else { 4 });
    run.set("exhaustive", true);
    run.sample(json!({"path": paths.get(n_main / 3)}));
    run.sample(json!({"path": paths.last()}));
    run.finish();
}
