//! C08 — WebTorrent swarm bookkeeping and per-connection ownership of peers (seqmc).

use crate::common::*;
use crate::seqmc::{self, Limits};
use crate::udp_sys::NEVER;
use crate::ws_sys::*;

pub fn systems(tier: Tier) -> Vec<(WsSys, Limits, bool)> {
    let th = num_threads();
    let wall = if tier.thorough() { 900.0 } else { 100.0 };
    let mut v = Vec::new();
    // S1: two connections that are each the first connection of their socket worker (same slot key),
    // two peer ids, one torrent: to fixpoint
    v.push((
        WsSys(WsAlphabet {
            name: "S1-2conn-2peer",
            opts: WsOpts { conns: vec![(0, K1, true), (1, K1, true)], hashes: vec![0], max_peer_age: 1, ..Default::default() },
            peers: 2,
            peer_is_conn: false,
            kinds: vec![WsKind::Leech, WsKind::Seed, WsKind::Stop],
            offer_sets: vec![],
            answers: vec![],
            scrapes: vec![Some(vec![0])],
            clock_max: 1,
            clean: true,
            closes: true,
            reloads: vec![],
        }),
        Limits { max_depth: 64, max_states: 3_000_000, max_wall_s: wall, threads: th },
        true,
    ));
    // S2: three connections (two with coinciding slot keys, one more on worker 0), three peer ids, two torrents,
    // all event / left combinations, scrape shapes; depth-bounded
    v.push((
        WsSys(WsAlphabet {
            name: "S2-3conn-3peer-2torrents",
            opts: WsOpts { conns: vec![(0, K1, true), (1, K1, true), (0, K2, true)], hashes: vec![0, 1], max_peer_age: 1, ..Default::default() },
            peers: 3,
            peer_is_conn: false,
            kinds: vec![WsKind::Leech, WsKind::Leech5, WsKind::Update5, WsKind::Seed, WsKind::SeedCompleted, WsKind::Stop, WsKind::Stop0],
            offer_sets: vec![],
            answers: vec![],
            scrapes: vec![Some(vec![0]), Some(vec![0, 1, NEVER]), Some(vec![NEVER]), None],
            clock_max: 1,
            clean: true,
            closes: true,
            reloads: vec![],
        }),
        Limits { max_depth: if tier.thorough() { 5 } else { 4 }, max_states: 4_000_000, max_wall_s: wall, threads: th },
        false,
    ));
    // S3: an IPv4 and an IPv6 connection using the same peer ids (families are separate swarms), with offers so that
    // announces carrying offers / answers take part in the bookkeeping
    v.push((
        WsSys(WsAlphabet {
            name: "S3-families-offers",
            opts: WsOpts { conns: vec![(0, K1, true), (0, K2, false), (1, K2, true)], hashes: vec![0], max_peer_age: 2, ..Default::default() },
            peers: 2,
            peer_is_conn: false,
            kinds: vec![WsKind::Leech, WsKind::Seed, WsKind::Stop],
            offer_sets: vec![vec![1]],
            answers: vec![(0, 1)],
            scrapes: vec![Some(vec![0])],
            clock_max: 2,
            clean: true,
            closes: true,
            reloads: vec![],
        }),
        Limits { max_depth: if tier.thorough() { 7 } else { 5 }, max_states: 4_000_000, max_wall_s: wall, threads: th },
        false,
    ));
    v
}

pub fn main(args: &Args) -> ! {
    let mut run = Run::new(args, "model_checking");
    run.set("engine", "seqmc: BFS over event histories on aquatic_ws's swarm storage (hook H5) + model of the socket worker's announced_info_hashes bookkeeping, mock clock (H1)");
    run.set("exhaustive", true);
    run.assume("the 30-line socket-side bookkeeping model (record hash->peer id, refuse a second id, forget on stopped, send recorded pairs on close) mirrors connection.rs; it is exercised end to end by C17");
    run.assume("scrapes stay within max_scrape_torrents (the statement defines no behaviour beyond the limit)");
    if let Some(p) = &args.replay {
        let r = load_replay(p);
        let systems: Vec<WsSys> = systems(Tier::Thorough).into_iter().map(|x| x.0).collect();
        if !seqmc::replay_from_file(&mut run, &r, &systems) {
            machinery_failure("replay file does not belong to this check");
        }
        run.finish();
    }
    for (s, lim, need_fix) in systems(args.tier) {
        seqmc::run_bfs(&mut run, &s, &lim, need_fix);
    }
    run.finish();
}
