//! C16 — HTTP tracker: one well-framed reply per request; workers are invisible
//! (model BFS + conformance replay of every explored transition against running trackers,
//! over worker-count configurations and placements).

use std::collections::{BTreeMap, BTreeSet, HashSet, VecDeque};
use std::net::{IpAddr, Ipv4Addr, SocketAddr};
use std::sync::atomic::{AtomicU64, Ordering};
use std::sync::Mutex;
use std::time::Duration;

use serde::{Deserialize, Serialize};
use serde_json::json;

use crate::bencode::{self, B};
use crate::common::*;
use crate::netmc::*;

#[derive(Clone, Copy, Debug, Serialize, Deserialize, PartialEq, Eq, Hash, PartialOrd, Ord)]
pub enum K {
    Leech,
    Seed,
    Stop,
}

#[derive(Clone, Debug, Serialize, Deserialize, PartialEq, Eq, Hash)]
pub enum HEv {
    Ann { c: u8, t: u8, k: K },
    /// scrape variant: 0 = [t0], 1 = [t0, t1, t2], 2 = [t0, t0, t1], 3 = [unknown, t1], 4 = [t2, t1, t0, unknown]
    Scrape { c: u8, v: u8 },
    /// 0 = wrong path, 1 = missing parameter, 2 = 17 headers
    Malformed { c: u8, v: u8 },
    Oversized { c: u8 },
    Close { c: u8 },
}

pub const UNKNOWN_T: u8 = 9;

fn scrape_list(v: u8) -> Vec<u8> {
    match v {
        0 => vec![0],
        1 => vec![0, 1, 2],
        2 => vec![0, 0, 1],
        3 => vec![UNKNOWN_T, 1],
        _ => vec![2, 1, 0, UNKNOWN_T],
    }
}

#[derive(Clone, Debug, PartialEq, Eq, Hash, PartialOrd, Ord, Default)]
pub struct Model {
    /// torrent -> connection index (= peer key) -> seeder
    pub torrents: BTreeMap<u8, BTreeMap<u8, bool>>,
    pub open: BTreeSet<u8>,
}

#[derive(Clone, Debug, PartialEq)]
pub enum Expect {
    Announce { complete: usize, incomplete: usize, peers: BTreeSet<u16> },
    Scrape(BTreeMap<u8, (usize, usize)>),
    Silence,
    ClosedByServer,
    Nothing,
}

pub struct Params {
    pub conns: u8,
    pub torrents: u8,
    pub max_scrape: usize,
    pub keep_alive: bool,
    pub scrape_variants: Vec<u8>,
    pub malformed: bool,
}

impl Model {
    pub fn events(&self, p: &Params) -> Vec<HEv> {
        let mut v = Vec::new();
        for c in 0..p.conns {
            for t in 0..p.torrents {
                for k in [K::Leech, K::Seed, K::Stop] {
                    v.push(HEv::Ann { c, t, k });
                }
            }
        }
        for c in 0..p.conns.min(2) {
            for sv in &p.scrape_variants {
                v.push(HEv::Scrape { c, v: *sv });
            }
        }
        if p.malformed {
            let c = p.conns - 1;
            for m in 0..3 {
                v.push(HEv::Malformed { c, v: m });
            }
            v.push(HEv::Oversized { c });
        }
        for c in &self.open {
            v.push(HEv::Close { c: *c });
        }
        v
    }

    pub fn apply(&mut self, ev: &HEv, p: &Params) -> Expect {
        let keep = |m: &mut Model, c: u8| {
            if p.keep_alive {
                m.open.insert(c);
            } else {
                m.open.remove(&c);
            }
        };
        match ev {
            HEv::Ann { c, t, k } => {
                let tor = self.torrents.entry(*t).or_default();
                let others: Vec<(u8, bool)> = tor.iter().filter(|(kk, _)| *kk != c).map(|(a, b)| (*a, *b)).collect();
                let complete = others.iter().filter(|x| x.1).count();
                let e = Expect::Announce { complete, incomplete: others.len() - complete, peers: others.iter().map(|x| 1000 + x.0 as u16).collect() };
                match k {
                    K::Stop => {
                        tor.remove(c);
                    }
                    K::Leech => {
                        tor.insert(*c, false);
                    }
                    K::Seed => {
                        tor.insert(*c, true);
                    }
                }
                if tor.is_empty() {
                    self.torrents.remove(t);
                }
                keep(self, *c);
                e
            }
            HEv::Scrape { c, v } => {
                let mut files = BTreeMap::new();
                for t in scrape_list(*v).into_iter().take(p.max_scrape) {
                    let (s, l) = self.torrents.get(&t).map(|m| (m.values().filter(|x| **x).count(), m.values().filter(|x| !**x).count())).unwrap_or((0, 0));
                    files.insert(t, (s, l));
                }
                keep(self, *c);
                Expect::Scrape(files)
            }
            HEv::Malformed { c, .. } => {
                self.open.remove(c);
                Expect::Silence
            }
            HEv::Oversized { c } => {
                self.open.remove(c);
                Expect::ClosedByServer
            }
            HEv::Close { c } => {
                self.open.remove(c);
                Expect::Nothing
            }
        }
    }
}

/// BFS over the model; returns one path per explored transition (BFS-tree path to the source state + the event)
pub fn model_paths(p: &Params, depth: usize) -> (Vec<Vec<HEv>>, usize) {
    let mut seen: HashSet<Model> = HashSet::new();
    let init = Model::default();
    seen.insert(init.clone());
    let mut q: VecDeque<(Model, Vec<HEv>)> = VecDeque::new();
    q.push_back((init, Vec::new()));
    let mut paths = Vec::new();
    while let Some((m, path)) = q.pop_front() {
        if path.len() >= depth {
            continue;
        }
        for ev in m.events(p) {
            let mut m2 = m.clone();
            m2.apply(&ev, p);
            let mut p2 = path.clone();
            p2.push(ev);
            paths.push(p2.clone());
            if seen.insert(m2.clone()) {
                q.push_back((m2, p2));
            }
        }
    }
    (paths, seen.len())
}

#[derive(Clone, Debug)]
pub struct Placement {
    pub conn_worker: Vec<u8>,
    pub torrent_worker: Vec<u8>,
    /// clients connect over IPv6 (::1): peers6 in the replies
    pub v6: bool,
}

pub struct Tracker {
    pub child: TrackerChild,
    pub socket_workers: u8,
    pub swarm_workers: u8,
    pub keep_alive: bool,
    pub label: String,
}

fn start_tracker(sw: u8, wm: u8, keep_alive: bool, max_scrape: usize) -> Tracker {
    // ready = every socket worker answers a request (see c17::start_tracker_cleaning for why one restart is allowed)
    for attempt in 0..2 {
        let cfg = json!({"socket_workers": sw, "swarm_workers": wm, "network": {"keep_alive": keep_alive}, "protocol": {"max_scrape_torrents": max_scrape}, "cleaning": {"max_peer_age": 100000, "torrent_cleaning_interval": 100000}});
        let mut child = TrackerChild::spawn("http", cfg, &[("AQV_PORT_PER_WORKER", "1".into())]);
        if all_workers_serving("http", child.port, sw, 90) && child.exited().is_none() {
            return Tracker { child, socket_workers: sw, swarm_workers: wm, keep_alive, label: format!("socket_workers={} swarm_workers={} keep_alive={} max_scrape_torrents={}", sw, wm, keep_alive, max_scrape) };
        }
        let ex = child.exited();
        eprintln!("[C16] tracker socket_workers={} swarm_workers={} not serving after 90 s (attempt {}, exit code {:?}); threads: {:?}", sw, wm, attempt, ex, proc_thread_states(child.child.id()));
    }
    machinery_failure("http tracker did not start serving (two attempts, 90 s each)");
}

fn hash_for(ns: u64, t: u8, pl: &Placement, swarm_workers: u8) -> [u8; 20] {
    let mut h = [0u8; 20];
    // byte 0 selects the swarm worker; the remaining bytes make the torrent unique to this namespace
    let w = if t == UNKNOWN_T { (ns % swarm_workers as u64) as u8 } else { pl.torrent_worker[t as usize] % swarm_workers };
    // any first byte that maps to swarm worker w (the byte also decides nothing else - a tracker that reduces it modulo
    // the wrong worker count must not get away with small values): w, w + n, w + 2n, ... chosen by the namespace
    h[0] = w + swarm_workers * (ns % (256 / swarm_workers as u64)) as u8;
    h[1..9].copy_from_slice(&ns.to_be_bytes());
    h[9] = t;
    for (i, x) in h.iter_mut().enumerate().skip(10) {
        *x = (ns as u8).wrapping_mul(31).wrapping_add(i as u8) | 0x80; // non-ascii bytes too
    }
    h
}

fn enc(b: &[u8; 20]) -> String {
    b.iter().map(|x| format!("%{:02x}", x)).collect()
}

pub struct ReplayOut {
    pub requests: u64,
    pub violation: Option<(String, String)>,
}

/// Replay one model path against a running tracker in namespace `ns`
pub fn replay(trk: &Tracker, p: &Params, path: &[HEv], ns: u64, pl: &Placement) -> ReplayOut {
    let mut m = Model::default();
    let mut conns: Vec<Option<HttpConn>> = (0..p.conns).map(|_| None).collect();
    let mut requests = 0;
    let fail = |sig: &str, what: String, i: usize| ReplayOut { requests: 0, violation: Some((sig.to_string(), format!("{} [event {} of path {:?}; tracker {}; placement {:?}]", what, i, path, trk.label, pl))) };
    for (i, ev) in path.iter().enumerate() {
        let was_open: BTreeSet<u8> = m.open.clone();
        let exp = m.apply(ev, p);
        let c = match ev {
            HEv::Ann { c, .. } | HEv::Scrape { c, .. } | HEv::Malformed { c, .. } | HEv::Oversized { c } | HEv::Close { c } => *c as usize,
        };
        if let HEv::Close { .. } = ev {
            conns[c] = None;
            continue;
        }
        // (re)open the connection if the model says it is not open
        if !was_open.contains(&(c as u8)) || conns[c].is_none() {
            let ip = if pl.v6 { IpAddr::V6(std::net::Ipv6Addr::LOCALHOST) } else { IpAddr::V4(Ipv4Addr::LOCALHOST) };
            let addr = SocketAddr::new(ip, trk.child.port + (pl.conn_worker[c] % trk.socket_workers) as u16);
            conns[c] = HttpConn::connect(addr);
            if conns[c].is_none() {
                return fail("http/connect-failed", "could not connect".into(), i);
            }
        } else if !trk.keep_alive {
            return fail("http/driver", "driver error: open connection without keep-alive".into(), i);
        }
        let req: Vec<u8> = match ev {
            HEv::Ann { t, k, .. } => {
                let h = hash_for(ns, *t, pl, trk.swarm_workers);
                let (left, event) = match k {
                    K::Leech => (5, "started"),
                    K::Seed => (0, "completed"),
                    K::Stop => (5, "stopped"),
                };
                http_get(&http_announce_path(&h, &[b'p'; 20], 1000 + c as u16, left, event, None, 0), "")
            }
            HEv::Scrape { v, .. } => {
                let hs: Vec<String> = scrape_list(*v).iter().map(|t| format!("info_hash={}", enc(&hash_for(ns, *t, pl, trk.swarm_workers)))).collect();
                http_get(&format!("/scrape?{}", hs.join("&")), "")
            }
            HEv::Malformed { v, .. } => match v {
                0 => http_get("/stats?x=1", ""),
                1 => http_get(&format!("/announce?info_hash={}&port=1", enc(&hash_for(ns, 0, pl, trk.swarm_workers))), ""),
                _ => http_get(&http_announce_path(&hash_for(ns, 0, pl, trk.swarm_workers), &[b'p'; 20], 1000 + c as u16, 5, "started", None, 0), &(0..17).map(|i| format!("X-H{}: v\r\n", i)).collect::<String>()),
            },
            HEv::Oversized { .. } => format!("GET /announce?info_hash={}&pad={}", enc(&hash_for(ns, 0, pl, trk.swarm_workers)), "p".repeat(2100)).into_bytes(),
            HEv::Close { .. } => unreachable!(),
        };
        requests += 1;
        let conn = conns[c].as_mut().unwrap();
        if !conn.send(&req) {
            return fail("http/send-failed", "could not send the request".into(), i);
        }
        match exp {
            Expect::Silence => {
                conn.stream.set_read_timeout(Some(Duration::from_millis(120))).ok();
                let r = conn.read_reply();
                conn.stream.set_read_timeout(Some(Duration::from_secs(5))).ok();
                if let Ok(rep) = r {
                    // a failure response would be acceptable HTTP behaviour, a 200 with tracker data is not
                    let is_failure = bencode::decode(&rep.body[..rep.body.len().saturating_sub(2)]).ok().and_then(|b| b.get("failure reason").cloned()).is_some();
                    if !is_failure {
                        return fail("http/malformed-request-answered", format!("malformed request got a non-failure reply: {:?}", String::from_utf8_lossy(&rep.body)), i);
                    }
                }
                conns[c] = None;
            }
            Expect::ClosedByServer => {
                match conn.read_reply() {
                    Err(HttpErr::Closed(_)) => {}
                    other => return fail("http/oversized-request-not-closed", format!("oversized request: expected the server to close the connection, got {:?}", other.map(|r| r.status_line)), i),
                }
                conns[c] = None;
            }
            Expect::Nothing => {}
            Expect::Announce { complete, incomplete, peers } => {
                let rep = match conn.read_reply() {
                    Ok(r) => r,
                    Err(e) => return fail("http/no-reply/announce", format!("announce not answered: {:?}", e), i),
                };
                if let Some(msg) = frame_check(&rep) {
                    return fail("http/framing", msg, i);
                }
                let body = &rep.body[..rep.body.len() - 2];
                let b = match bencode::decode(body) {
                    Ok(b) => b,
                    Err(e) => return fail("http/body-not-canonical-bencode", format!("{}: {:?}", e, String::from_utf8_lossy(body)), i),
                };
                let got_c = b.get("complete").and_then(|x| x.as_int());
                let got_i = b.get("incomplete").and_then(|x| x.as_int());
                // the family of the connection carries the peers, the other list is empty
                let (key_own, key_other, width) = if pl.v6 { ("peers6", "peers", 18) } else { ("peers", "peers6", 6) };
                let pe = b.get(key_own).and_then(|x| x.as_bytes()).map(|x| x.to_vec());
                let p6 = b.get(key_other).and_then(|x| x.as_bytes()).map(|x| x.len());
                if got_c != Some(complete as i128) || got_i != Some(incomplete as i128) {
                    return fail("http/announce-counts", format!("announce reply complete/incomplete = {:?}/{:?}, a single reference tracker says {}/{}", got_c, got_i, complete, incomplete), i);
                }
                let mut got_peers = BTreeSet::new();
                match pe {
                    Some(pe) if pe.len() % width == 0 && p6 == Some(0) => {
                        for ch in pe.chunks(width) {
                            let source: Vec<u8> = if pl.v6 { std::net::Ipv6Addr::LOCALHOST.octets().to_vec() } else { vec![127, 0, 0, 1] };
                            if ch[..width - 2] != source[..] {
                                return fail("http/announce-peer-address", format!("peer address {:?} is not the TCP source", &ch[..width - 2]), i);
                            }
                            got_peers.insert(u16::from_be_bytes([ch[width - 2], ch[width - 1]]));
                        }
                    }
                    other => return fail("http/announce-peers-shape", format!("peers / peers6 malformed: {:?} {:?}", other.map(|x| x.len()), p6), i),
                }
                if got_peers != peers {
                    return fail("http/announce-peers", format!("peers {:?}, a single reference tracker hands out {:?}", got_peers, peers), i);
                }
            }
            Expect::Scrape(files) => {
                let rep = match conn.read_reply() {
                    Ok(r) => r,
                    Err(e) => return fail("http/no-reply/scrape", format!("scrape not answered: {:?}", e), i),
                };
                if let Some(msg) = frame_check(&rep) {
                    return fail("http/framing", msg, i);
                }
                let body = &rep.body[..rep.body.len() - 2];
                let b = match bencode::decode(body) {
                    Ok(b) => b,
                    Err(e) => return fail("http/body-not-canonical-bencode", format!("{}: {:?}", e, String::from_utf8_lossy(body)), i),
                };
                let mut exp_files: BTreeMap<Vec<u8>, B> = BTreeMap::new();
                for (t, (s, l)) in &files {
                    exp_files.insert(hash_for(ns, *t, pl, trk.swarm_workers).to_vec(), B::dict(vec![("complete", B::Int(*s as i128)), ("downloaded", B::Int(0)), ("incomplete", B::Int(*l as i128))]));
                }
                let expb = B::dict(vec![("files", B::Dict(exp_files))]);
                if b != expb {
                    let n = b.get("files").map(|f| if let B::Dict(d) = f { d.len() } else { 0 }).unwrap_or(0);
                    return fail("http/scrape-reply", format!("scrape reply has {} entries and differs from what a single reference tracker answers ({} entries: {:?})", n, files.len(), files), i);
                }
            }
        }
        if !trk.keep_alive && matches!(ev, HEv::Ann { .. } | HEv::Scrape { .. }) {
            // the server closes after the reply; nothing more may arrive
            let extra = conns[c].as_mut().map(|c| c.drain(30)).unwrap_or_default();
            if !extra.is_empty() {
                return fail("http/surplus-bytes", format!("{} surplus bytes after the reply", extra.len()), i);
            }
            conns[c] = None;
        }
    }
    // on the last request of each kept-alive connection: nothing may follow the reply
    for c in conns.iter_mut().flatten() {
        if !c.buf.is_empty() {
            return ReplayOut { requests, violation: Some(("http/surplus-bytes".into(), format!("{} surplus bytes after the last reply [path {:?}; tracker {}]", c.buf.len(), path, trk.label))) };
        }
    }
    ReplayOut { requests, violation: None }
}

fn frame_check(r: &HttpReply) -> Option<String> {
    if !r.status_line.starts_with("HTTP/1.1 200") {
        return Some(format!("status line {:?}", r.status_line));
    }
    if r.body.len() < 2 || &r.body[r.body.len() - 2..] != b"\r\n" {
        return Some("body does not end with CRLF inside Content-Length".into());
    }
    None
}

fn placements(sw: u8, wm: u8, conns: u8, torrents: u8) -> Vec<Placement> {
    // all assignments, up to renaming of workers (first use gets the lowest free index)
    fn canon(n: u8, k: u8) -> Vec<Vec<u8>> {
        let mut out = vec![vec![]];
        for _ in 0..n {
            let mut next = Vec::new();
            for a in &out {
                let used = a.iter().max().map(|m| m + 1).unwrap_or(0);
                for w in 0..=(used.min(k - 1)) {
                    let mut b: Vec<u8> = a.clone();
                    b.push(w);
                    next.push(b);
                }
            }
            out = next;
        }
        out
    }
    let mut v = Vec::new();
    for c in canon(conns, sw) {
        for t in canon(torrents, wm) {
            v.push(Placement { conn_worker: c.clone(), torrent_worker: t, v6: false });
        }
    }
    v
}

static NS: AtomicU64 = AtomicU64::new(1);

fn segmentation(trk: &Tracker, run_viol: &Mutex<Vec<(String, String)>>, thorough: bool) -> u64 {
    // one announce and one scrape, split at every byte offset into two TCP segments
    let mut n = 0;
    let pl = Placement { conn_worker: vec![0, 0, 0], torrent_worker: vec![0, 1, 2], v6: false };
    let p = Params { conns: 1, torrents: 3, max_scrape: 100, keep_alive: trk.keep_alive, scrape_variants: vec![], malformed: false };
    for kind in 0..2 {
        let ns = NS.fetch_add(1, Ordering::Relaxed);
        let req = if kind == 0 {
            http_get(&http_announce_path(&hash_for(ns, 0, &pl, trk.swarm_workers), &[b'p'; 20], 1000, 5, "started", None, 0), "User-Agent: x\r\n")
        } else {
            http_get(&format!("/scrape?info_hash={}&info_hash={}", enc(&hash_for(ns, 0, &pl, trk.swarm_workers)), enc(&hash_for(ns, 1, &pl, trk.swarm_workers))), "")
        };
        let _ = p.conns;
        let step = if thorough { 1 } else { 3 };
        let mut offs: Vec<(usize, usize)> = (1..req.len()).step_by(step).map(|o| (o, 0)).collect();
        for a in (1..req.len()).step_by(37) {
            for b in ((a + 1)..req.len()).step_by(41) {
                offs.push((a, b));
            }
        }
        for (o1, o2) in offs {
            n += 1;
            let addr = SocketAddr::new(IpAddr::V4(Ipv4Addr::LOCALHOST), trk.child.port);
            let Some(mut c) = HttpConn::connect(addr) else { continue };
            c.send(&req[..o1]);
            std::thread::sleep(Duration::from_millis(1));
            if o2 > 0 {
                c.send(&req[o1..o2]);
                std::thread::sleep(Duration::from_millis(1));
                c.send(&req[o2..]);
            } else {
                c.send(&req[o1..]);
            }
            match c.read_reply() {
                Ok(r) if frame_check(&r).is_none() && bencode::decode(&r.body[..r.body.len() - 2]).map(|b| b.get("failure reason").is_none()).unwrap_or(false) => {}
                other => run_viol.lock().unwrap().push(("http/segmented-request".into(), format!("request split at byte offsets {:?} is not answered by one well-framed reply: {:?} [tracker {}]", (o1, o2), other.map(|r| String::from_utf8_lossy(&r.body).to_string()), trk.label))),
            }
        }
    }
    n
}

/// Free-running stress (not a verdict path): hammer a tracker from several threads until a request stays unanswered for
/// 10 s, then print the tracker's thread states twice, two seconds apart. Used to chase a stall seen once under load.
fn stress(secs: u64) -> ! {
    let cfgs = [(2u8, 2u8, 0usize), (3, 3, 100), (2, 3, 100)];
    let trackers: Vec<Tracker> = cfgs.iter().map(|&(sw, wm, ms)| start_tracker(sw, wm, true, ms)).collect();
    let t0 = std::time::Instant::now();
    let stalled = std::sync::atomic::AtomicBool::new(false);
    let total = AtomicU64::new(0);
    std::thread::scope(|s| {
        for (ti, trk) in trackers.iter().enumerate() {
            for th in 0..6u64 {
                let (stalled, total) = (&stalled, &total);
                s.spawn(move || {
                    let mut k = th * 1_000_000 + ti as u64 * 100_000_000;
                    let mut keep: Option<HttpConn> = None;
                    while t0.elapsed().as_secs() < secs && !stalled.load(Ordering::Relaxed) {
                        k += 1;
                        let w = (k % trk.socket_workers as u64) as u16;
                        let addr = SocketAddr::new(IpAddr::V4(Ipv4Addr::LOCALHOST), trk.child.port + w);
                        let mut h = [0x33u8; 20];
                        h[0] = (k % 7) as u8;
                        h[1..9].copy_from_slice(&(k / 50).to_be_bytes());
                        let req = if k % 3 == 0 {
                            http_get(&format!("/scrape?info_hash={}&info_hash={}", enc(&h), enc(&[(k % 5) as u8; 20])), "")
                        } else {
                            http_get(&http_announce_path(&h, &[b'q'; 20], 2000 + (k % 500) as u16, k % 2, if k % 11 == 0 { "stopped" } else { "started" }, None, 0), "")
                        };
                        // alternate between a kept-alive connection, a fresh one, and a fresh one abandoned right after sending
                        let mode = k % 4;
                        if mode == 3 {
                            if let Some(mut c) = HttpConn::connect(addr) {
                                c.send(&req);
                            }
                            continue;
                        }
                        let mut c = match (mode, keep.take()) {
                            (0, Some(c)) => c,
                            _ => match HttpConn::connect(addr) {
                                Some(c) => c,
                                None => continue,
                            },
                        };
                        c.stream.set_read_timeout(Some(Duration::from_secs(10))).ok();
                        if !c.send(&req) {
                            continue;
                        }
                        match c.read_reply() {
                            Ok(_) => {
                                total.fetch_add(1, Ordering::Relaxed);
                                if mode == 0 {
                                    keep = Some(c);
                                }
                            }
                            Err(HttpErr::Timeout(_)) => {
                                if !stalled.swap(true, Ordering::Relaxed) {
                                    println!("STALL after {:.0} s and {} answered requests: {} did not answer within 10 s: {:?}", t0.elapsed().as_secs_f64(), total.load(Ordering::Relaxed), trk.label, String::from_utf8_lossy(&req[..req.len().min(80)]));
                                    for round in 0..2 {
                                        println!("thread states (round {}):", round);
                                        for l in proc_thread_states(trk.child.child.id()) {
                                            println!("   {}", l);
                                        }
                                        std::thread::sleep(Duration::from_secs(2));
                                    }
                                    println!("answers a fresh plain announce now: {}", http_alive(SocketAddr::new(IpAddr::V4(Ipv4Addr::LOCALHOST), trk.child.port), k));
                                }
                            }
                            Err(_) => {}
                        }
                    }
                });
            }
        }
    });
    println!("stress done: {} answered requests in {:.0} s, stalled: {}", total.load(Ordering::Relaxed), t0.elapsed().as_secs_f64(), stalled.load(Ordering::Relaxed));
    std::process::exit(0);
}

pub fn main(args: &Args) -> ! {
    if let Some(secs) = std::env::var("AQV_C16_STRESS").ok().and_then(|s| s.parse().ok()) {
        stress(secs);
    }

    let mut run = Run::new(args, "model_checking");
    let th = args.tier.thorough();
    run.set("engine", "netmc: breadth-first search of a reference model (one tracker, three connections, three torrents); every transition of the explored model graph is replayed - BFS-tree path to its source state, then the transition - in a fresh info-hash namespace against aquatic_http::run in child processes, for every worker-count configuration, with connections placed on chosen socket workers (hook H7) and torrents on chosen swarm workers (first hash byte)");
    run.assume("schedules inside the running tracker are not controlled: requests of one path are issued one at a time (the regime the property describes); other paths run concurrently in disjoint namespaces");
    run.assume("a malformed request is observed by silence for 120 ms on its own connection, then the driver closes it");
    let depth = if th { 4 } else { 3 };
    let p_main = Params { conns: if th { 3 } else { 2 }, torrents: if th { 3 } else { 2 }, max_scrape: 100, keep_alive: true, scrape_variants: if th { vec![0, 1, 2, 3] } else { vec![1, 2, 3] }, malformed: true };
    let (paths, model_states) = model_paths(&p_main, depth);
    // scrape-limit family: max_scrape_torrents = 2, scrapes of 3-4 hashes spread over swarm workers
    let p_lim = Params { conns: 2, torrents: 3, max_scrape: 2, keep_alive: true, scrape_variants: vec![1, 2, 4], malformed: false };
    let (paths_lim, states_lim) = model_paths(&p_lim, 2);

    if let Some(rp) = &args.replay {
        let r = load_replay(rp);
        let d = &r["detail"];
        let path: Vec<HEv> = serde_json::from_value(d["path"].clone()).unwrap_or_else(|e| machinery_failure(&format!("bad path: {}", e)));
        let (sw, wm, ka, ms) = (d["socket_workers"].as_u64().unwrap_or(1) as u8, d["swarm_workers"].as_u64().unwrap_or(1) as u8, d["keep_alive"].as_bool().unwrap_or(true), d["max_scrape"].as_u64().unwrap_or(100) as usize);
        let trk = start_tracker(sw, wm, ka, ms);
        let pl = Placement { conn_worker: serde_json::from_value(d["conn_worker"].clone()).unwrap_or(vec![0, 1, 2]), torrent_worker: serde_json::from_value(d["torrent_worker"].clone()).unwrap_or(vec![0, 1, 2]), v6: d["v6"].as_bool().unwrap_or(false) };
        let p = Params { conns: 6, torrents: 3, max_scrape: ms, keep_alive: ka, scrape_variants: vec![], malformed: true };
        let o1 = replay(&trk, &p, &path, 900_001, &pl);
        let o2 = replay(&trk, &p, &path, 900_002, &pl);
        if o1.violation.as_ref().map(|v| &v.0) != o2.violation.as_ref().map(|v| &v.0) {
            eprintln!("note: the two replays differ ({:?} vs {:?})", o1.violation, o2.violation);
        }
        if let Some((sig, what)) = o1.violation.or(o2.violation) {
            run.violation(sig, what, d.clone());
        }
        run.set("states", 1);
        run.set("transitions", path.len());
        run.set("traces_validated_against_impl", 2);
        run.finish();
    }

    let configs: Vec<(u8, u8, bool)> = if th {
        let mut v = Vec::new();
        for sw in 1..=3 {
            for wm in 1..=3 {
                for ka in [true, false] {
                    v.push((sw, wm, ka));
                }
            }
        }
        v
    } else {
        vec![(1, 1, true), (3, 3, true), (2, 3, false), (3, 2, true)]
    };
    let viols: Mutex<Vec<(String, String, serde_json::Value)>> = Mutex::new(Vec::new());
    let total_requests = AtomicU64::new(0);
    let total_paths = AtomicU64::new(0);
    let seg_cases = AtomicU64::new(0);
    let mut jobs: Vec<(u8, u8, bool, usize)> = configs.iter().map(|c| (c.0, c.1, c.2, 100)).collect();
    for (sw, wm) in if th { vec![(1u8, 1u8), (1, 3), (2, 2), (3, 3), (3, 1)] } else { vec![(1, 1), (2, 3)] } {
        jobs.push((sw, wm, true, 2));
    }
    // max_scrape_torrents = 0: every scrape is answered with an empty reply
    jobs.push((2, 2, true, 0));
    let all_placement_paths: Vec<Vec<HEv>> = paths.iter().filter(|p| p.len() <= 2).cloned().collect();
    // fixed deep scenarios: six connections on one torrent (more peers than the inline representation holds), re-announces
    // with changed status, stops, scrapes in between
    let deep_paths: Vec<Vec<HEv>> = {
        let mut v = Vec::new();
        for variant in 0..4u8 {
            let mut p = Vec::new();
            for c in 0..6u8 {
                p.push(HEv::Ann { c, t: 0, k: if (c + variant) % 2 == 0 { K::Seed } else { K::Leech } });
                if c == 3 {
                    p.push(HEv::Scrape { c: 0, v: 1 });
                }
            }
            for c in 0..6u8 {
                p.push(HEv::Ann { c: (c + variant) % 6, t: 0, k: if c % 3 == 0 { K::Stop } else if c % 3 == 1 { K::Leech } else { K::Seed } });
            }
            p.push(HEv::Scrape { c: 1, v: 1 });
            p.push(HEv::Ann { c: 0, t: 0, k: K::Leech });
            for c in (0..6u8).rev() {
                p.push(HEv::Ann { c, t: 0, k: K::Stop });
            }
            p.push(HEv::Scrape { c: 0, v: 0 });
            v.push(p);
        }
        v
    };
    std::thread::scope(|s| {
        for (sw, wm, ka, ms) in jobs.iter().cloned() {
            let (viols, total_requests, total_paths, seg_cases) = (&viols, &total_requests, &total_paths, &seg_cases);
            let (paths, paths_lim, p_main, p_lim, all_placement_paths, deep_paths) = (&paths, &paths_lim, &p_main, &p_lim, &all_placement_paths, &deep_paths);
            s.spawn(move || {
                let trk = start_tracker(sw, wm, ka, ms);
                let (ps, params): (&Vec<Vec<HEv>>, Params) = if ms != 100 {
                    (paths_lim, Params { keep_alive: ka, scrape_variants: p_lim.scrape_variants.clone(), ..Params { conns: p_lim.conns, torrents: p_lim.torrents, max_scrape: ms, keep_alive: ka, scrape_variants: vec![], malformed: false } })
                } else {
                    (paths, Params { conns: p_main.conns, torrents: p_main.torrents, max_scrape: 100, keep_alive: ka, scrape_variants: p_main.scrape_variants.clone(), malformed: true })
                };
                let pls = placements(sw, wm, 3, 3);
                // every transition under a rotating placement; short paths under every placement
                let mut work: Vec<(&Vec<HEv>, Placement)> = ps.iter().enumerate().map(|(i, p)| (p, pls[i % pls.len()].clone())).collect();
                if ms == 100 {
                    for p in all_placement_paths.iter() {
                        for pl in &pls {
                            work.push((p, pl.clone()));
                        }
                    }
                } else {
                    for p in ps.iter() {
                        for pl in &pls {
                            work.push((p, pl.clone()));
                        }
                    }
                }
                // a tracker that stops answering altogether is reported at once (not after thousands of 5 s timeouts)
                let unanswered = AtomicU64::new(0);
                let stopped = AtomicU64::new(0);
                let res = par_map(&work, 4, |(path, pl)| {
                    if stopped.load(Ordering::Relaxed) != 0 {
                        return (ReplayOut { requests: 0, violation: None }, (*path).clone(), pl.clone());
                    }
                    let ns = NS.fetch_add(1, Ordering::Relaxed);
                    let o = replay(&trk, &params, path, ns, pl);
                    // a tracker whose run() has returned is not a tracker that is hard to reach
                    if o.violation.is_some() {
                        if let Some(line) = trk.child.line_with_wait("RUN-RETURNED", 300) {
                            if stopped.swap(1, Ordering::Relaxed) == 0 {
                                viols.lock().unwrap().push(("http/tracker-exited".to_string(), format!("{}: the tracker's run() returned while requests were being served ({}); last path: {:?}, outcome {:?}", trk.label, line, path, o.violation), json!({"path": path, "socket_workers": sw, "swarm_workers": wm, "keep_alive": ka, "max_scrape": ms, "conn_worker": pl.conn_worker, "torrent_worker": pl.torrent_worker})));
                            }
                            return (ReplayOut { requests: o.requests, violation: None }, (*path).clone(), pl.clone());
                        }
                    }
                    match &o.violation {
                        Some((sig, _)) if sig.starts_with("http/no-reply") => {
                            if unanswered.fetch_add(1, Ordering::Relaxed) >= 8 && stopped.load(Ordering::Relaxed) == 0 {
                                let addr = SocketAddr::new(IpAddr::V4(Ipv4Addr::LOCALHOST), trk.child.port);
                                if !http_alive(addr, ns) && !http_alive(addr, ns + 1) && !http_alive(addr, ns + 2) && !http_alive(addr, ns + 3) && stopped.swap(1, Ordering::Relaxed) == 0 {
                                    let threads = proc_thread_states(trk.child.child.id());
                                    viols.lock().unwrap().push(("http/tracker-stopped-answering".to_string(), format!("{}: after {} consecutive unanswered requests the tracker does not answer a plain announce on a fresh connection either (four attempts, 5 s each); process alive, threads: {:?}", trk.label, unanswered.load(Ordering::Relaxed), threads), json!({"path": path, "socket_workers": sw, "swarm_workers": wm, "keep_alive": ka, "max_scrape": ms, "conn_worker": pl.conn_worker, "torrent_worker": pl.torrent_worker})));
                                }
                            }
                        }
                        _ => unanswered.store(0, Ordering::Relaxed),
                    }
                    (o, (*path).clone(), pl.clone())
                });
                if stopped.load(Ordering::Relaxed) != 0 {
                    return;
                }
                for (o, path, pl) in res {
                    total_requests.fetch_add(o.requests, Ordering::Relaxed);
                    total_paths.fetch_add(1, Ordering::Relaxed);
                    if let Some((sig, _)) = o.violation {
                        // replay the failing path on its own (nothing else in flight on this tracker); only a failure that reproduces counts
                        let again = replay(&trk, &params, &path, NS.fetch_add(1, Ordering::Relaxed), &pl);
                        if let Some((sig2, what2)) = again.violation {
                            if sig2 == sig {
                                viols.lock().unwrap().push((sig2, what2, json!({"path": path, "socket_workers": sw, "swarm_workers": wm, "keep_alive": ka, "max_scrape": ms, "conn_worker": pl.conn_worker, "torrent_worker": pl.torrent_worker})));
                            }
                        }
                    }
                }
                if ms == 100 {
                    let dparams = Params { conns: 6, torrents: 3, max_scrape: 100, keep_alive: ka, scrape_variants: vec![], malformed: false };
                    for (i, dp) in deep_paths.iter().enumerate() {
                      for v6 in [false, true] {
                        let pl = Placement { conn_worker: (0..6u8).map(|c| (c + i as u8) % 3).collect(), torrent_worker: vec![i as u8 % 3, 1, 2], v6 };
                        let o = replay(&trk, &dparams, dp, NS.fetch_add(1, Ordering::Relaxed), &pl);
                        total_requests.fetch_add(o.requests, Ordering::Relaxed);
                        total_paths.fetch_add(1, Ordering::Relaxed);
                        if let Some((sig, _)) = o.violation {
                            let again = replay(&trk, &dparams, dp, NS.fetch_add(1, Ordering::Relaxed), &pl);
                            if let Some((sig2, what2)) = again.violation {
                                if sig2 == sig {
                                    viols.lock().unwrap().push((sig2, what2, json!({"path": dp, "socket_workers": sw, "swarm_workers": wm, "keep_alive": ka, "max_scrape": ms, "conn_worker": pl.conn_worker, "torrent_worker": pl.torrent_worker, "v6": v6, "deep": true})));
                                }
                            }
                        }
                      }
                    }
                }
                if ms == 100 && (sw, wm) != (2, 3) {
                    let sv: Mutex<Vec<(String, String)>> = Mutex::new(Vec::new());
                    let n = segmentation(&trk, &sv, th);
                    seg_cases.fetch_add(n, Ordering::Relaxed);
                    for (sig, what) in sv.into_inner().unwrap() {
                        viols.lock().unwrap().push((sig, what, json!({"socket_workers": sw, "swarm_workers": wm, "keep_alive": ka})));
                    }
                }
            });
        }
    });
    let mut vs = viols.into_inner().unwrap();
    // shortest path first
    vs.sort_by_key(|v| v.2["path"].as_array().map(|a| a.len()).unwrap_or(99));
    for (sig, what, d) in vs {
        run.violation(sig, what, d);
    }
    run.set("states", (model_states + states_lim) as u64);
    run.set("transitions", (paths.len() + paths_lim.len()) as u64);
    run.set("traces_validated_against_impl", total_paths.load(Ordering::Relaxed));
    run.set("requests_sent", total_requests.load(Ordering::Relaxed));
    run.set("segmentation_cases", seg_cases.load(Ordering::Relaxed));
    run.set("configurations", jobs.len() as u64);
    run.set("max_depth", depth as u64);
    run.set("exhaustive", true);
    run.sample(json!({"path": paths.get(paths.len() / 2), "note": "one explored model transition with its BFS-tree path"}));
    run.sample(json!({"path": paths_lim.last(), "configuration": "max_scrape_torrents = 2"}));
    run.finish();
}
