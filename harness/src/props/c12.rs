//! C12 — No network input can crash parsing or request handling
//! (exhaustive over short byte strings and over the single-step mutation space of a corpus of valid
//! messages; structural extremes; handler level with extreme field values).
//! The sweep runs in a child process with 2 MiB thread stacks: a crash of the child is a violation.

use std::collections::BTreeMap;
use std::io::Write;
use std::net::{IpAddr, Ipv4Addr, SocketAddr};
use std::sync::atomic::{AtomicU64, Ordering};

use serde_json::json;
use tungstenite::Message;

use crate::alloc_count;
use crate::common::*;

pub const K1: u64 = 64;
pub const K2: u64 = 64 * 1024;

#[derive(Clone, Copy, Debug, PartialEq, Eq, PartialOrd, Ord, Hash)]
pub enum Parser {
    UdpRequest(u8),
    UdpResponse(bool),
    HttpRequest,
    HttpPath,
    HttpSocketRequest(bool),
    HttpResponse,
    UrlDecode,
    WsIn(bool),
    WsOut(bool),
    PeerClient,
    AccessListLine,
}

impl Parser {
    pub fn name(&self) -> String {
        format!("{:?}", self)
    }
}

/// Run one parser on one input. Ok(accepted?) or Err(panic message). Also returns bytes allocated.
pub fn run_parser(p: Parser, input: &[u8]) -> (Result<bool, String>, u64) {
    alloc_count::reset();
    let r = std::panic::catch_unwind(|| match p {
        Parser::UdpRequest(m) => aquatic_udp_protocol::Request::parse_bytes(input, m).is_ok(),
        Parser::UdpResponse(v4) => aquatic_udp_protocol::Response::parse_bytes(input, v4).is_ok(),
        Parser::HttpRequest => matches!(aquatic_http_protocol::request::Request::parse_bytes(input), Ok(Some(_))),
        Parser::HttpPath => match std::str::from_utf8(input) {
            Ok(s) => aquatic_http_protocol::request::Request::parse_http_get_path(s).is_ok(),
            Err(_) => false,
        },
        Parser::HttpSocketRequest(proxy) => {
            let mut c = aquatic_http::config::Config::default();
            c.network.runs_behind_reverse_proxy = proxy;
            c.network.reverse_proxy_ip_header_name = "X-Forwarded-For".into();
            aquatic_http::verif_request::parse_request(&c, input).is_ok()
        }
        Parser::HttpResponse => aquatic_http_protocol::response::Response::parse_bytes(input).is_ok(),
        Parser::UrlDecode => match std::str::from_utf8(input) {
            Ok(s) => aquatic_http_protocol::request::Request::parse_http_get_path(&format!("/scrape?info_hash={}", s)).is_ok(),
            Err(_) => false,
        },
        Parser::WsIn(text) => {
            let m = if text {
                match std::str::from_utf8(input) {
                    Ok(s) => Message::text(s.to_string()),
                    Err(_) => return false,
                }
            } else {
                Message::binary(input.to_vec())
            };
            aquatic_ws_protocol::incoming::InMessage::from_ws_message(m).is_ok()
        }
        Parser::WsOut(text) => {
            let m = if text {
                match std::str::from_utf8(input) {
                    Ok(s) => Message::text(s.to_string()),
                    Err(_) => return false,
                }
            } else {
                Message::binary(input.to_vec())
            };
            aquatic_ws_protocol::outgoing::OutMessage::from_ws_message(m).is_ok()
        }
        Parser::PeerClient => {
            let mut id = [0u8; 20];
            let n = input.len().min(20);
            id[..n].copy_from_slice(&input[..n]);
            let c = aquatic_peer_id::PeerId(id).client();
            let _ = format!("{}", c);
            let _ = aquatic_peer_id::PeerId(id).first_8_bytes_hex();
            true
        }
        Parser::AccessListLine => match std::str::from_utf8(input) {
            Ok(s) => aquatic_common::access_list::AccessList::default().insert_from_line(s).is_ok(),
            Err(_) => false,
        },
    });
    let bytes = alloc_count::get();
    (r.map_err(|e| panic_message(&e)), bytes)
}

fn all_parsers() -> Vec<Parser> {
    vec![
        Parser::UdpRequest(0),
        Parser::UdpRequest(1),
        Parser::UdpRequest(70),
        Parser::UdpRequest(255),
        Parser::UdpResponse(true),
        Parser::UdpResponse(false),
        Parser::HttpRequest,
        Parser::HttpPath,
        Parser::HttpSocketRequest(false),
        Parser::HttpSocketRequest(true),
        Parser::HttpResponse,
        Parser::UrlDecode,
        Parser::WsIn(true),
        Parser::WsIn(false),
        Parser::WsOut(true),
        Parser::WsOut(false),
        Parser::PeerClient,
        Parser::AccessListLine,
    ]
}

/// corpus of valid messages: (bytes, parsers that accept this kind of message)
pub fn corpus() -> Vec<(String, Vec<u8>, Vec<Parser>)> {
    use crate::props::c13::*;
    let mut c: Vec<(String, Vec<u8>, Vec<Parser>)> = Vec::new();
    let udp_req = vec![Parser::UdpRequest(1), Parser::UdpRequest(70)];
    c.push(("udp-connect".into(), ref_encode_request(&RefRequest::Connect { transaction_id: 7 }), udp_req.clone()));
    for ev in 0..4 {
        let mut a = base_announce();
        a.event = ev;
        c.push((format!("udp-announce-ev{}", ev), ref_encode_request(&RefRequest::Announce(a)), udp_req.clone()));
    }
    for n in [1usize, 3, 70] {
        c.push((format!("udp-scrape-{}", n), ref_encode_request(&RefRequest::Scrape { connection_id: 5, transaction_id: 6, info_hashes: (0..n).map(|i| [i as u8; 20]).collect() }), udp_req.clone()));
    }
    let udp_resp = vec![Parser::UdpResponse(true), Parser::UdpResponse(false)];
    c.push(("udp-r-connect".into(), ref_encode_response(&RefResponse::Connect { transaction_id: 1, connection_id: 2 }), udp_resp.clone()));
    c.push(("udp-r-announce4".into(), ref_encode_response(&RefResponse::Announce { transaction_id: 1, interval: 2, leechers: 3, seeders: 4, peers: vec![(vec![1, 2, 3, 4], 5), (vec![6, 7, 8, 9], 10), (vec![1, 1, 1, 1], 1)] }), udp_resp.clone()));
    c.push(("udp-r-scrape".into(), ref_encode_response(&RefResponse::Scrape { transaction_id: 1, stats: vec![(1, 2, 3), (4, 5, 6)] }), udp_resp.clone()));
    c.push(("udp-r-error".into(), ref_encode_response(&RefResponse::Error { transaction_id: 1, message: b"Connection ID mismatch".to_vec() }), udp_resp.clone()));

    let http_req = vec![Parser::HttpRequest, Parser::HttpSocketRequest(false), Parser::HttpSocketRequest(true)];
    c.push(("http-announce".into(), b"GET /announce?info_hash=%04%0bkV%3f%5cr%14%a6%b7%98%adC%c3%c9.%40%24%00%b9&peer_id=-ABC940-5ert69muw5t8&port=12345&uploaded=1&downloaded=2&left=3&numwant=0&key=4ab4b877&compact=1&supportcrypto=1&event=started HTTP/1.1\r\nHost: example.com\r\nX-Forwarded-For: 1.2.3.4, 5.6.7.8\r\nUser-Agent: x\r\n\r\n".to_vec(), http_req.clone()));
    c.push(("http-scrape".into(), b"GET /scrape?info_hash=%04%0bkV%3f%5cr%14%a6%b7%98%adC%c3%c9.%40%24%00%b9&info_hash=aaaaaaaaaaaaaaaaaaaa HTTP/1.1\r\nX-Forwarded-For: ::1\r\n\r\n".to_vec(), http_req.clone()));
    c.push(("http-path-announce".into(), b"/announce?info_hash=%04%0bkV%3f%5cr%14%a6%b7%98%adC%c3%c9.%40%24%00%b9&peer_id=-ABC940-5ert69muw5t8&port=12345&uploaded=1&downloaded=2&left=3&numwant=0&key=4ab4b877&compact=1&event=stopped".to_vec(), vec![Parser::HttpPath]));
    c.push(("http-path-scrape".into(), b"/scrape?info_hash=aaaaaaaaaaaaaaaaaaaa&x=y&info_hash=%ff%FEbbbbbbbbbbbbbbbbbb".to_vec(), vec![Parser::HttpPath]));
    c.push(("urldecode".into(), b"%04%0bkV%3f%5cr%14%a6%b7%98%adC%c3%c9.%40%24%00%b9".to_vec(), vec![Parser::UrlDecode]));
    c.push(("http-r-announce".into(), b"d8:completei1e10:incompletei2e8:intervali1800e5:peers12:\x01\x02\x03\x04\x1a\xe1\x05\x06\x07\x08\x1a\xe26:peers618:\x20\x01\x0d\xb8\0\0\0\0\0\0\0\0\0\0\0\x01\x1a\xe115:warning message2:hie".to_vec(), vec![Parser::HttpResponse]));
    c.push(("http-r-scrape".into(), b"d5:filesd20:aaaaaaaaaaaaaaaaaaaad8:completei1e10:downloadedi0e10:incompletei2eeee".to_vec(), vec![Parser::HttpResponse]));
    c.push(("http-r-failure".into(), b"d14:failure reason5:nopeee".to_vec(), vec![Parser::HttpResponse]));

    let ws_in = vec![Parser::WsIn(true), Parser::WsIn(false)];
    let id = "aaaaaaaaaaaaaaaaaaaa";
    c.push(("ws-announce-offers".into(), json!({"action":"announce","info_hash":id,"peer_id":"bbbbbbbbbbbbbbbbbbbb","left":5,"event":"started","numwant":2,"offers":[{"offer":{"type":"offer","sdp":"v=0\r\n"},"offer_id":"cccccccccccccccccccc"},{"offer":{"type":"offer","sdp":"x"},"offer_id":"dddddddddddddddddddd"}]}).to_string().into_bytes(), ws_in.clone()));
    c.push(("ws-announce-answer".into(), json!({"action":"announce","info_hash":id,"peer_id":"bbbbbbbbbbbbbbbbbbbb","left":0,"answer":{"type":"answer","sdp":"s"},"to_peer_id":"eeeeeeeeeeeeeeeeeeee","offer_id":"cccccccccccccccccccc"}).to_string().into_bytes(), ws_in.clone()));
    c.push(("ws-scrape-multi".into(), json!({"action":"scrape","info_hash":[id,"ffffffffffffffffffff"]}).to_string().into_bytes(), ws_in.clone()));
    c.push(("ws-scrape-single".into(), json!({"action":"scrape","info_hash":id}).to_string().into_bytes(), ws_in.clone()));
    let ws_out = vec![Parser::WsOut(true), Parser::WsOut(false)];
    c.push(("ws-r-offer".into(), json!({"action":"announce","peer_id":id,"info_hash":id,"offer":{"type":"offer","sdp":"x"},"offer_id":id}).to_string().into_bytes(), ws_out.clone()));
    c.push(("ws-r-answer".into(), json!({"action":"announce","peer_id":id,"info_hash":id,"answer":{"type":"answer","sdp":"x"},"offer_id":id}).to_string().into_bytes(), ws_out.clone()));
    c.push(("ws-r-announce".into(), json!({"action":"announce","info_hash":id,"complete":1,"incomplete":2,"interval":120}).to_string().into_bytes(), ws_out.clone()));
    c.push(("ws-r-scrape".into(), json!({"action":"scrape","files":{id:{"complete":1,"incomplete":2,"downloaded":0}}}).to_string().into_bytes(), ws_out.clone()));
    c.push(("ws-r-error".into(), json!({"failure reason":"x","action":"scrape","info_hash":id}).to_string().into_bytes(), ws_out.clone()));

    for pid in ["-TR2940-abcdefghijkl", "-qB4250-abcdefghijkl", "M4-3-6--abcdefghijkl", "M4-20-8-abcdefghijkl", "-WW0102-abcdefghijkl", "-UT355S-abcdefghijkl", "-AZ5750-abcdefghijkl", "A2-1-18-8-abcdefghij", "S58B-----abcdefghijk", "exbc\0\0abcdefghijklmn"] {
        c.push((format!("peerid-{}", &pid[..6]), pid.as_bytes().to_vec(), vec![Parser::PeerClient]));
    }
    c.push(("accesslist-line".into(), b"0123456789abcdefABCDEF0123456789abcdef01".to_vec(), vec![Parser::AccessListLine]));
    c
}

pub struct Stats {
    pub inputs: AtomicU64,
    pub accepted: AtomicU64,
    pub rejected: AtomicU64,
    pub max_ratio_milli: AtomicU64,
}

fn record(stats: &Stats, viols: &std::sync::Mutex<Vec<(String, String, serde_json::Value)>>, p: Parser, input: &[u8], label: &str) {
    let (r, bytes) = run_parser(p, input);
    stats.inputs.fetch_add(1, Ordering::Relaxed);
    let bound = K1 * input.len() as u64 + K2;
    let ratio = bytes * 1000 / bound.max(1);
    stats.max_ratio_milli.fetch_max(ratio, Ordering::Relaxed);
    match r {
        Ok(true) => {
            stats.accepted.fetch_add(1, Ordering::Relaxed);
        }
        Ok(false) => {
            stats.rejected.fetch_add(1, Ordering::Relaxed);
        }
        Err(msg) => {
            let sig = format!("crash/parser/{}", p.name());
            viols.lock().unwrap().push((sig.clone(), format!("{} panicked on {} input ({} bytes): {}", p.name(), label, input.len(), msg), json!({"signature": sig, "parser": p.name(), "input_hex": hex::encode(&input[..input.len().min(4096)]), "label": label})));
        }
    }
    if bytes > bound {
        let sig = format!("alloc/parser/{}", p.name());
        viols.lock().unwrap().push((sig.clone(), format!("{} allocated {} bytes for a {}-byte {} input (bound {}*len+{})", p.name(), bytes, input.len(), label, K1, K2), json!({"signature": sig, "parser": p.name(), "input_hex": hex::encode(&input[..input.len().min(4096)]), "label": label})));
    }
}

fn structural_extremes() -> Vec<(String, Vec<u8>, Vec<Parser>)> {
    let mut v: Vec<(String, Vec<u8>, Vec<Parser>)> = Vec::new();
    let path_parsers = vec![Parser::HttpPath];
    let base = "/announce?info_hash=aaaaaaaaaaaaaaaaaaaa&peer_id=bbbbbbbbbbbbbbbbbbbb&port=1&uploaded=1&downloaded=2&left=3";
    for (k, vals) in [
        ("numwant", vec!["-1", "-2147483648", "0", "2147483647", "18446744073709551615", "18446744073709551616", "99999999999999999999", "9999999999999999999999999999999999999999", "", "1e3", "+1", " 1"]),
        ("left", vec!["-1", "18446744073709551615", "18446744073709551616", "", "0x10"]),
        ("port", vec!["0", "65535", "65536", "-1", "99999999999999999999", ""]),
        ("event", vec!["", "started", "paused", "STARTED", "\u{0}"]),
        ("compact", vec!["0", "1", "2", ""]),
    ] {
        for val in vals {
            v.push((format!("http-{}={}", k, val), format!("{}&{}={}", base, k, val).into_bytes(), path_parsers.clone()));
        }
    }
    // '=' and '&' in every position of a query string
    let q = "/scrape?info_hash=aaaaaaaaaaaaaaaaaaaa&x=y";
    for pos in 0..=q.len() {
        for ch in ["=", "&", "%", "?", "%%", "=&", "&="] {
            let mut s = q.to_string();
            s.insert_str(pos, ch);
            v.push((format!("http-insert-{}-at-{}", ch, pos), s.into_bytes(), path_parsers.clone()));
        }
    }
    for tail in ["%", "%a", "%zz", "%a%", "%%%"] {
        v.push((format!("http-tail-{}", tail), format!("/scrape?info_hash=aaaaaaaaaaaaaaaaaaa{}", tail).into_bytes(), path_parsers.clone()));
        v.push((format!("urldecode-tail-{}", tail), format!("aaaaaaaaaaaaaaaaaaa{}", tail).into_bytes(), vec![Parser::UrlDecode]));
    }
    for len in 0..=40usize {
        v.push((format!("urldecode-len-{}", len), "é".repeat(len).into_bytes(), vec![Parser::UrlDecode]));
        v.push((format!("urldecode-pct-len-{}", len), "%41".repeat(len).into_bytes(), vec![Parser::UrlDecode]));
        v.push((format!("ws-id-len-{}", len), json!({"action":"scrape","info_hash":"𝕊".repeat(len)}).to_string().into_bytes(), vec![Parser::WsIn(true), Parser::WsIn(false)]));
    }
    for klen in [99usize, 100, 101, 10_000] {
        v.push((format!("http-key-{}", klen), format!("{}&key={}", base, "k".repeat(klen)).into_bytes(), path_parsers.clone()));
        v.push((format!("http-key-pct-{}", klen), format!("{}&key={}", base, "%ff".repeat(klen / 3)).into_bytes(), path_parsers.clone()));
    }
    // non-UTF-8 and non-Latin-1
    v.push(("http-non-utf8".into(), b"GET /announce?info_hash=\xff\xfe\xfd HTTP/1.1\r\n\r\n".to_vec(), vec![Parser::HttpRequest, Parser::HttpSocketRequest(false)]));
    v.push(("ws-non-utf8".into(), b"{\"action\":\"scrape\",\"info_hash\":\"\xff\xfe\"}".to_vec(), vec![Parser::WsIn(false), Parser::WsOut(false)]));
    v.push(("ws-lone-surrogate".into(), br#"{"action":"scrape","info_hash":"\ud800aaaaaaaaaaaaaaaaaaa"}"#.to_vec(), vec![Parser::WsIn(true), Parser::WsIn(false)]));
    // 2048-byte HTTP requests with 16 and 17 headers
    for nh in [15usize, 16, 17, 40] {
        let mut r = format!("GET {} HTTP/1.1\r\n", base).into_bytes();
        for i in 0..nh {
            r.extend_from_slice(format!("X-H{}: v\r\n", i).as_bytes());
        }
        r.extend_from_slice(b"\r\n");
        v.push((format!("http-{}-headers", nh), r, vec![Parser::HttpRequest, Parser::HttpSocketRequest(false), Parser::HttpSocketRequest(true)]));
    }
    v.push(("http-2048".into(), format!("GET {}&pad={} HTTP/1.1\r\n\r\n", base, "p".repeat(1900)).into_bytes(), vec![Parser::HttpRequest, Parser::HttpSocketRequest(false)]));
    // proxy header shapes
    for hv in ["", ",", " , ", "1.2.3.4,", ",1.2.3.4", "not-an-ip", "1.2.3.4, ::ffff:1.2.3.4", "\u{ff}"] {
        v.push((format!("http-xff-{:?}", hv), format!("GET {} HTTP/1.1\r\nX-Forwarded-For: {}\r\n\r\n", base, hv).into_bytes(), vec![Parser::HttpSocketRequest(true)]));
    }
    // JSON: null for every field, duplicate keys, big strings
    let fields = ["action", "info_hash", "peer_id", "left", "event", "offers", "numwant", "answer", "to_peer_id", "offer_id"];
    let ws_in = vec![Parser::WsIn(true), Parser::WsIn(false)];
    for f in fields {
        let mut o = json!({"action":"announce","info_hash":"aaaaaaaaaaaaaaaaaaaa","peer_id":"bbbbbbbbbbbbbbbbbbbb","left":1,"event":"started","offers":[],"numwant":0,"answer":{"type":"answer","sdp":""},"to_peer_id":"cccccccccccccccccccc","offer_id":"dddddddddddddddddddd"});
        o[f] = serde_json::Value::Null;
        v.push((format!("ws-null-{}", f), o.to_string().into_bytes(), ws_in.clone()));
        for bad in [json!(1), json!(-1), json!(1.5), json!(1e300), json!([]), json!({}), json!(true), json!("x")] {
            let mut o2 = o.clone();
            o2[f] = bad.clone();
            v.push((format!("ws-{}-{}", f, bad), o2.to_string().into_bytes(), ws_in.clone()));
        }
    }
    v.push(("ws-dup-keys".into(), br#"{"action":"scrape","action":"announce","info_hash":"aaaaaaaaaaaaaaaaaaaa","info_hash":["bbbbbbbbbbbbbbbbbbbb"]}"#.to_vec(), ws_in.clone()));
    v.push(("ws-64k-string".into(), json!({"action":"scrape","info_hash":"a".repeat(64 * 1024 - 40)}).to_string().into_bytes(), ws_in.clone()));
    v.push(("ws-64k-sdp".into(), json!({"action":"announce","info_hash":"aaaaaaaaaaaaaaaaaaaa","peer_id":"bbbbbbbbbbbbbbbbbbbb","left":1,"offers":[{"offer":{"type":"offer","sdp":"s".repeat(60 * 1024)},"offer_id":"cccccccccccccccccccc"}]}).to_string().into_bytes(), ws_in.clone()));
    v.push(("ws-many-offers".into(), json!({"action":"announce","info_hash":"aaaaaaaaaaaaaaaaaaaa","peer_id":"bbbbbbbbbbbbbbbbbbbb","left":1,"offers": (0..600).map(|_| json!({"offer":{"type":"offer","sdp":""},"offer_id":"cccccccccccccccccccc"})).collect::<Vec<_>>()}).to_string().into_bytes(), ws_in.clone()));
    v.push(("ws-many-hashes".into(), json!({"action":"scrape","info_hash": (0..2500).map(|_| "aaaaaaaaaaaaaaaaaaaa").collect::<Vec<_>>()}).to_string().into_bytes(), ws_in.clone()));
    // deep nesting
    let all_json = vec![Parser::WsIn(true), Parser::WsIn(false), Parser::WsOut(true), Parser::WsOut(false)];
    for depth in [1usize, 10, 128, 1024, 10_000, 32_768] {
        v.push((format!("json-arrays-depth-{}", depth), "[".repeat(depth).into_bytes(), all_json.clone()));
        v.push((format!("json-arrays-closed-depth-{}", depth), format!("{}{}", "[".repeat(depth), "]".repeat(depth)).into_bytes(), all_json.clone()));
        v.push((format!("json-objects-depth-{}", depth), format!("{}1{}", "{\"a\":".repeat(depth.min(13_000)), "}".repeat(depth.min(13_000))).into_bytes(), all_json.clone()));
        v.push((format!("json-offers-depth-{}", depth), format!("{{\"action\":\"announce\",\"info_hash\":\"aaaaaaaaaaaaaaaaaaaa\",\"peer_id\":\"bbbbbbbbbbbbbbbbbbbb\",\"offers\":{}{}}}", "[".repeat(depth.min(30_000)), "]".repeat(depth.min(30_000))).into_bytes(), all_json.clone()));
        // bencode nesting
        v.push((format!("bencode-lists-depth-{}", depth), format!("{}{}", "l".repeat(depth), "e".repeat(depth)).into_bytes(), vec![Parser::HttpResponse]));
        v.push((format!("bencode-dicts-depth-{}", depth), format!("{}i1e{}", "d1:a".repeat(depth), "e".repeat(depth)).into_bytes(), vec![Parser::HttpResponse]));
    }
    // deep nesting after a string that ends in, or contains, every combination of escapes: a nesting pre-check has to
    // track string boundaries exactly (escaped backslash before the closing quote, escaped quote, brackets inside strings)
    let units = ["x", "\\\\", "\\\"", "[", "{", "\\u005c"];
    let mut bodies: Vec<String> = Vec::new();
    for a in units {
        bodies.push(a.to_string());
        for b in units {
            bodies.push(format!("{}{}", a, b));
            for c in units {
                bodies.push(format!("{}{}{}", a, b, c));
            }
        }
    }
    let nest = format!("{}{}", "[".repeat(30_000), "]".repeat(30_000));
    let nest_obj = format!("{}1{}", "{\"a\":".repeat(12_000), "}".repeat(12_000));
    for (i, body) in bodies.iter().enumerate() {
        v.push((format!("json-nesting-after-string-value-{}", i), format!("{{\"a\":\"{}\",\"b\":{}}}", body, nest).into_bytes(), all_json.clone()));
        v.push((format!("json-nesting-after-string-key-{}", i), format!("{{\"{}\":1,\"b\":{}}}", body, if i % 2 == 0 { &nest } else { &nest_obj }).into_bytes(), all_json.clone()));
    }
    // bencode with huge declared lengths / numbers inside the input
    for s in ["99999999999:", "d5:peers99999999999:abc", "d8:completei99999999999999999999999e10:incompletei0e8:intervali0ee", "d5:filesd20:aaaaaaaaaaaaaaaaaaaad8:completei-1e10:downloadedi0e10:incompletei0eeee", "i-0e", "d14:failure reason18446744073709551615:x"] {
        v.push((format!("bencode-{}", &s[..s.len().min(12)]), s.as_bytes().to_vec(), vec![Parser::HttpResponse]));
    }
    v
}

fn mutations(base: &[u8], thorough_subst: bool) -> Vec<Vec<u8>> {
    let mut out = Vec::new();
    for n in 0..base.len() {
        out.push(base[..n].to_vec());
    }
    for ext in 1..=4usize {
        for b in [0x00u8, 0xff, b'&', b'=', b'%', b'"', b'{'] {
            let mut x = base.to_vec();
            x.extend(std::iter::repeat(b).take(ext));
            out.push(x);
        }
    }
    for bit in 0..base.len() * 8 {
        let mut x = base.to_vec();
        x[bit / 8] ^= 1 << (bit % 8);
        out.push(x);
    }
    for pos in 0..base.len() {
        if thorough_subst || pos % 2 == 0 {
            for val in 0..=255u8 {
                if val != base[pos] {
                    let mut x = base.to_vec();
                    x[pos] = val;
                    out.push(x);
                }
            }
        }
        // deletion and duplication of one byte
        let mut d = base.to_vec();
        d.remove(pos);
        out.push(d);
        let mut dup = base.to_vec();
        dup.insert(pos, base[pos]);
        out.push(dup);
    }
    out
}

// ------------------------------------------------------------------ handler level

fn handler_level(viols: &std::sync::Mutex<Vec<(String, String, serde_json::Value)>>, counter: &AtomicU64) {
    use aquatic_common::{CanonicalSocketAddr, SecondsSinceServerStart, ValidUntil};
    use rand::SeedableRng;
    let sizes = [0usize, 1, 2, 3, 5, 6, 40];
    let lims = [0usize, 1, 2, 30];
    let vu = ValidUntil::new_with_now(SecondsSinceServerStart::new_raw(0), 10);
    let mut push = |sig: &str, what: String, d: serde_json::Value| viols.lock().unwrap().push((sig.to_string(), what, d));

    // UDP
    {
        use crate::udp_sys::{Kind, UdpWorld, WorldOpts};
        use aquatic_udp_protocol::*;
        for &n in &sizes {
            for &m in &lims {
                for v4 in [true, false] {
                    let mk = || {
                        let mut w = UdpWorld::new(WorldOpts { max_response_peers: m, families: vec![v4], peer_clients: true, ..Default::default() });
                        for i in 0..n {
                            w.real_announce(0, i as u8, if i % 2 == 0 { Kind::Leech } else { Kind::Seed }, 0, 0, v4, vu).unwrap();
                        }
                        w
                    };
                    for numwant in [i32::MIN, -1, 0, 1, i32::MAX] {
                        for left in [i64::MIN, -1, 0, 1, i64::MAX] {
                            for ev in [AnnounceEvent::None, AnnounceEvent::Started, AnnounceEvent::Completed, AnnounceEvent::Stopped] {
                                for key in [0u8, 150] {
                                    counter.fetch_add(1, Ordering::Relaxed);
                                    let case = json!({"tracker":"udp","n":n,"max_response_peers":m,"v4":v4,"numwant":numwant,"left":left,"event":format!("{:?}",ev),"key":key});
                                    let r = std::panic::catch_unwind(std::panic::AssertUnwindSafe(|| {
                                        let mut w = mk();
                                        let (mut req, src) = w.make_request(0, key, Kind::Leech, 3, numwant, v4);
                                        req.bytes_left = NumberOfBytes::new(left);
                                        req.bytes_downloaded = NumberOfBytes::new(i64::MIN);
                                        req.bytes_uploaded = NumberOfBytes::new(i64::MAX);
                                        req.event = ev.into();
                                        req.key = PeerKey::new(i32::MIN);
                                        let _ = w.maps.announce(&w.config, &w.tx, &mut w.rng, &req, src, vu);
                                        let _ = w.real_scrape(v4, &[0, 1, 255]);
                                        let _ = w.maps.scrape(ScrapeRequest { connection_id: ConnectionId::new(0), transaction_id: TransactionId::new(0), info_hashes: vec![] }, src);
                                        w.maps.clean_and_update_statistics(&w.config, &w.stats, &w.tx, &w.access, SecondsSinceServerStart::new_raw(u32::MAX), false);
                                    }));
                                    if let Err(e) = r {
                                        push("crash/handler/udp", format!("UDP request handling panicked: {} ({})", panic_message(&e), case), json!({"signature":"crash/handler/udp","case":case}));
                                    }
                                }
                            }
                        }
                    }
                }
            }
        }
    }
    // HTTP
    {
        use aquatic_http::config::Config;
        use aquatic_http::verif_storage::TorrentMaps;
        use aquatic_http_protocol::common::*;
        use aquatic_http_protocol::request::*;
        for &n in &sizes {
            for &m in &lims {
                for &ms in &[0usize, 1, 2, 100] {
                    let mut cfg = Config::default();
                    cfg.protocol.max_peers = m;
                    cfg.protocol.max_scrape_torrents = ms;
                    for numwant in [None, Some(0usize), Some(1), Some(usize::MAX)] {
                        for left in [0usize, 1, usize::MAX] {
                            for ev in [AnnounceEvent::Empty, AnnounceEvent::Started, AnnounceEvent::Completed, AnnounceEvent::Stopped] {
                                for port in [0u16, 1, 65535] {
                                    counter.fetch_add(1, Ordering::Relaxed);
                                    let case = json!({"tracker":"http","n":n,"max_peers":m,"max_scrape_torrents":ms,"numwant":numwant.map(|x| x.to_string()),"left":left.to_string(),"event":format!("{:?}",ev),"port":port});
                                    let r = std::panic::catch_unwind(std::panic::AssertUnwindSafe(|| {
                                        let mut maps = TorrentMaps::new(0);
                                        let mut rng = rand::rngs::SmallRng::seed_from_u64(3);
                                        let c0 = Config::default();
                                        for i in 0..n {
                                            let src = CanonicalSocketAddr::new(SocketAddr::new(IpAddr::V4(Ipv4Addr::new(10, 0, 0, i as u8 + 1)), 1));
                                            maps.handle_announce_request(&c0, &mut rng, vu, src, AnnounceRequest { info_hash: InfoHash([1; 20]), peer_id: PeerId([2; 20]), port: 1000 + i as u16, bytes_uploaded: 0, bytes_downloaded: 0, bytes_left: i % 2, event: AnnounceEvent::Started, numwant: None, key: None });
                                        }
                                        let src = CanonicalSocketAddr::new(SocketAddr::new(IpAddr::V4(Ipv4Addr::new(10, 0, 0, 1)), 0));
                                        let _ = maps.handle_announce_request(&cfg, &mut rng, vu, src, AnnounceRequest { info_hash: InfoHash([1; 20]), peer_id: PeerId([0xff; 20]), port, bytes_uploaded: usize::MAX, bytes_downloaded: usize::MAX, bytes_left: left, event: ev, numwant, key: Some("k".repeat(100).as_str().into()) });
                                        let _ = maps.handle_scrape_request(&cfg, src, ScrapeRequest { info_hashes: vec![InfoHash([1; 20]), InfoHash([1; 20]), InfoHash([9; 20])] });
                                        let _ = maps.handle_scrape_request(&cfg, src, ScrapeRequest { info_hashes: vec![] });
                                        aquatic_common::verif::set_thread_clock(Some(u32::MAX));
                                        maps.clean(&cfg, &std::sync::Arc::new(Default::default()), aquatic_common::ServerStartInstant::new());
                                        aquatic_common::verif::set_thread_clock(None);
                                    }));
                                    aquatic_common::verif::set_thread_clock(None);
                                    if let Err(e) = r {
                                        push("crash/handler/http", format!("HTTP request handling panicked: {} ({})", panic_message(&e), case), json!({"signature":"crash/handler/http","case":case}));
                                    }
                                }
                            }
                        }
                    }
                }
            }
        }
    }
    // WS
    {
        use crate::seqmc::World;
        use crate::ws_sys::*;
        for &n in &sizes {
            for &mo in &[0usize, 1, 2, 10] {
                for &ms in &[0usize, 1, 2, 100] {
                    for n_off in [0usize, 1, 3, 12, 300] {
                        for kind in [WsKind::Leech, WsKind::Seed, WsKind::Stop, WsKind::Update5] {
                            for answer in [None, Some((1u8, 1u8)), Some((UNKNOWN_PEER, 3))] {
                                counter.fetch_add(1, Ordering::Relaxed);
                                let case = json!({"tracker":"ws","n":n,"max_offers":mo,"max_scrape_torrents":ms,"offers":n_off,"kind":format!("{:?}",kind),"answer":answer});
                                let r = std::panic::catch_unwind(std::panic::AssertUnwindSafe(|| {
                                    let conns: Vec<(u8, u64, bool)> = (0..n.max(1) as u64).map(|i| ((i % 3) as u8, (1 << 32) | (i + 1), true)).collect();
                                    let mut w = WsWorld::new(WsOpts { conns, hashes: vec![0], max_offers: mo, max_scrape: ms, ..Default::default() });
                                    for i in 0..n {
                                        w.apply(&WsEv::Ann { conn: i as u8, peer: i as u8, h: 0, kind: if i % 2 == 0 { WsKind::Leech } else { WsKind::Seed }, offers: vec![], answer: None });
                                    }
                                    let o = w.apply(&WsEv::Ann { conn: 0, peer: 0, h: 0, kind, offers: (0..n_off).map(|i| (i % 250) as u8).collect(), answer });
                                    let s = w.apply(&WsEv::Scrape { conn: 0, hs: Some(vec![0, 0, 255, 1]) });
                                    w.clock = u32::MAX - 10;
                                    w.apply(&WsEv::Clean);
                                    (o.violations, s.violations)
                                }));
                                aquatic_common::verif::set_thread_clock(None);
                                if let Err(e) = r {
                                    push("crash/handler/ws", format!("WS request handling panicked: {} ({})", panic_message(&e), case), json!({"signature":"crash/handler/ws","case":case}));
                                }
                            }
                        }
                    }
                }
            }
        }
    }
}

// ------------------------------------------------------------------ child / parent

fn child(args: &Args) -> ! {
    let thorough = args.tier.thorough();
    let stats = Stats { inputs: AtomicU64::new(0), accepted: AtomicU64::new(0), rejected: AtomicU64::new(0), max_ratio_milli: AtomicU64::new(0) };
    let viols: std::sync::Mutex<Vec<(String, String, serde_json::Value)>> = std::sync::Mutex::new(Vec::new());
    let marker = format!("{}/target/c12-current-input.txt", VERIF_DIR);
    let mut per_parser: BTreeMap<String, u64> = BTreeMap::new();
    let only_extremes = args.extra.iter().any(|a| a == "--extremes");
    // one-time initialisation (lazily compiled regexes and the like) is not input-driven: warm every parser up once
    for p in all_parsers() {
        for (_, bytes, parsers) in corpus() {
            if parsers.contains(&p) {
                let _ = run_parser(p, &bytes);
            }
        }
        let _ = run_parser(p, b"x");
    }

    // all work happens on threads with the trackers' 2 MiB stack
    let run_on_small_stacks = |jobs: Vec<Box<dyn FnOnce() + Send + '_>>| {
        std::thread::scope(|s| {
            let mut hs = Vec::new();
            for j in jobs {
                hs.push(std::thread::Builder::new().stack_size(2 * 1024 * 1024).spawn_scoped(s, j).unwrap());
            }
            for h in hs {
                let _ = h.join();
            }
        });
    };

    // (i) every byte string of length 0, 1, 2 (3 for the UDP parsers in the thorough tier)
    if !only_extremes {
        let parsers = all_parsers();
        let mut jobs: Vec<Box<dyn FnOnce() + Send + '_>> = Vec::new();
        for p in parsers.iter().cloned() {
            let (stats, viols) = (&stats, &viols);
            jobs.push(Box::new(move || {
                record(stats, viols, p, &[], "short");
                for a in 0..=255u8 {
                    record(stats, viols, p, &[a], "short");
                    for b in 0..=255u8 {
                        record(stats, viols, p, &[a, b], "short");
                    }
                }
            }));
            *per_parser.entry(p.name()).or_insert(0) += 65_793;
        }
        if thorough {
            for p in [Parser::UdpRequest(70), Parser::UdpResponse(true), Parser::UdpResponse(false), Parser::PeerClient] {
                for chunk in 0..16u32 {
                    let (stats, viols) = (&stats, &viols);
                    jobs.push(Box::new(move || {
                        for a in (chunk * 16)..(chunk * 16 + 16) {
                            for b in 0..=255u8 {
                                for c in 0..=255u8 {
                                    record(stats, viols, p, &[a as u8, b, c], "short3");
                                }
                            }
                        }
                    }));
                }
                *per_parser.entry(p.name()).or_insert(0) += 1 << 24;
            }
        }
        run_on_small_stacks(jobs);
    }
    // (ii) mutation space of the corpus
    let corp = corpus();
    if !only_extremes {
        let mut jobs: Vec<Box<dyn FnOnce() + Send + '_>> = Vec::new();
        for (name, bytes, parsers) in corp.iter() {
            let (stats, viols) = (&stats, &viols);
            jobs.push(Box::new(move || {
                // the unmutated message must be accepted by its parsers (corpus sanity)
                for p in parsers {
                    let (r, _) = run_parser(*p, bytes);
                    if r != Ok(true) && !matches!(p, Parser::HttpSocketRequest(true)) {
                        viols.lock().unwrap().push(("corpus/not-accepted".into(), format!("corpus message {} is not accepted by {}: {:?}", name, p.name(), r), json!({"signature":"corpus/not-accepted"})));
                    }
                }
                for m in mutations(bytes, thorough || bytes.len() < 200) {
                    for p in parsers {
                        record(stats, viols, *p, &m, name);
                    }
                }
            }));
        }
        run_on_small_stacks(jobs);
    }
    // (iii) structural extremes, one at a time, with a marker file naming the input in flight
    let extremes = if only_extremes { structural_extremes() } else { Vec::new() };
    let skip: Vec<String> = args.extra.iter().position(|a| a == "--skip").and_then(|i| args.extra.get(i + 1)).map(|s| s.split('|').map(|x| x.to_string()).collect()).unwrap_or_default();
    for (name, bytes, parsers) in extremes.iter() {
        for p in parsers {
            if skip.contains(&format!("{} on {}", p.name(), name)) {
                continue;
            }
            let _ = std::fs::write(&marker, format!("{} on {} ({} bytes)", p.name(), name, bytes.len()));
            let (stats, viols) = (&stats, &viols);
            run_on_small_stacks(vec![Box::new(move || record(stats, viols, *p, bytes, name))]);
        }
    }
    let _ = std::fs::write(&marker, "handler level");
    let handler_cases = AtomicU64::new(0);
    if !only_extremes {
        let (viols, hc) = (&viols, &handler_cases);
        run_on_small_stacks(vec![Box::new(move || handler_level(viols, hc))]);
    }
    let _ = std::fs::remove_file(&marker);

    // first violation per signature
    let mut seen = std::collections::BTreeSet::new();
    let vs: Vec<serde_json::Value> = viols.into_inner().unwrap().into_iter().filter(|(s, _, _)| seen.insert(s.clone())).map(|(s, w, d)| json!({"signature": s, "what": w, "detail": d})).collect();
    let out = json!({
        "inputs": stats.inputs.load(Ordering::Relaxed),
        "accepted": stats.accepted.load(Ordering::Relaxed),
        "rejected": stats.rejected.load(Ordering::Relaxed),
        "max_alloc_over_bound_milli": stats.max_ratio_milli.load(Ordering::Relaxed),
        "corpus_messages": corp.len(),
        "structural_extremes": extremes.len(),
        "handler_cases": handler_cases.load(Ordering::Relaxed),
        "violations": vs,
    });
    println!("C12-CHILD-RESULT {}", out);
    std::io::stdout().flush().ok();
    std::process::exit(0);
}

fn machinery_or_finish(run: &mut Run) -> ! {
    run.set("evaluations", 1);
    run.set("distinct_nontrivial", 2);
    let r = std::mem::replace(run, Run::new(&run.args.clone(), "exploration"));
    r.finish()
}

pub fn main(args: &Args) -> ! {
    if args.extra.iter().any(|a| a == "--child") {
        child(args);
    }
    let mut run = Run::new(args, "exploration");
    run.set("rule", "per parser: every byte string of length 0..=2 (and 3 for the UDP parsers / peer-id parser in the thorough tier); for each of ~45 valid messages of every kind: every truncation, extension by 1..=4 bytes of 7 values, every single-bit flip, every single-byte substitution by all 256 values, every single-byte deletion and duplication; structural extremes (numeric extremes, '=' '&' '%' at every position, identifier lengths 0..=40, JSON / bencode nesting to 32768, JSON nesting to 30000 after every string of 1..=3 units out of {x, escaped backslash, escaped quote, [, {, \\u005c} as a value and as a key, 64 KiB strings, nulls and wrong types for every field, 15/16/17/40 headers); handler level: extreme field values x limits {0,1,2,default} x swarm sizes {0,1,2,3,5,6,40} on the real storage handlers. distinct_nontrivial = inputs the parsers rejected + accepted mutants (every input is distinct by construction)");
    run.set("alloc_bound", format!("bytes requested during a call <= {} * input length + {}", K1, K2));
    run.assume("Connection::read_request panicking when runs_behind_reverse_proxy is set and the header is absent is a documented deployment contract, not judged; the parser-level function returns an error value, which is checked");
    run.assume("overflow checks are on in the harness profile (the repository's release profile would wrap silently)");

    if let Some(p) = &args.replay {
        let r = load_replay(p);
        let d = &r["detail"];
        if let (Some(pn), Some(hexs)) = (d["parser"].as_str(), d["input_hex"].as_str()) {
            let input = hex::decode(hexs).unwrap_or_default();
            let parser = all_parsers().into_iter().find(|p| p.name() == pn).unwrap_or_else(|| machinery_failure("unknown parser in replay"));
            let (res, bytes) = run_parser(parser, &input);
            if let Err(m) = &res {
                run.violation(format!("crash/parser/{}", pn), format!("{} panicked: {}", pn, m), d.clone());
            }
            if bytes > K1 * input.len() as u64 + K2 {
                run.violation(format!("alloc/parser/{}", pn), format!("{} allocated {} bytes", pn, bytes), d.clone());
            }
            run.set("evaluations", 1);
            run.set("distinct_nontrivial", 2);
            run.finish();
        }
        machinery_failure("replay of handler-level / child-crash cases: run ./check C12");
    }

    let exe = std::env::current_exe().unwrap();
    let mut skip: Vec<String> = Vec::new();
    let mut crashes = 0;
    let mut results: Vec<serde_json::Value> = Vec::new();
    let mut line: Option<String> = None;
    for mode in ["main", "extremes"] {
        loop {
            let mut cmd = std::process::Command::new(&exe);
            cmd.arg("C12").arg("--tier").arg(args.tier.as_str()).arg("--child");
            if mode == "extremes" {
                cmd.arg("--extremes");
            }
            if !skip.is_empty() {
                cmd.arg("--skip").arg(skip.join("|"));
            }
            let out = cmd.output().unwrap_or_else(|e| machinery_failure(&format!("cannot start child: {}", e)));
            let stdout = String::from_utf8_lossy(&out.stdout).to_string();
            if let Some(l) = stdout.lines().find(|l| l.starts_with("C12-CHILD-RESULT ")) {
                results.push(serde_json::from_str(&l["C12-CHILD-RESULT ".len()..]).unwrap_or_else(|e| machinery_failure(&format!("bad child result: {}", e))));
                break;
            }
            // the child died: stack overflow / abort on some input
            crashes += 1;
            let marker = std::fs::read_to_string(format!("{}/target/c12-current-input.txt", VERIF_DIR)).unwrap_or_else(|_| "unknown (not in the one-at-a-time phase)".into());
            let what = marker.split(" (").next().unwrap_or("?").to_string();
            // signature: parser kind + input family (digits stripped), so that one defect is one finding
            let parser_kind = what.split('(').next().unwrap_or("?").to_string();
            let family: String = what.split(" on ").nth(1).unwrap_or("?").chars().filter(|c| !c.is_ascii_digit()).collect();
            let sig = format!("crash/process/{}/{}", parser_kind, family.trim_end_matches('-'));
            run.violation(sig.clone(), format!("the sweep process died ({:?}) while handling: {}", out.status, marker), json!({"signature": sig, "marker": marker, "stderr_tail": String::from_utf8_lossy(&out.stderr).chars().rev().take(300).collect::<String>().chars().rev().collect::<String>()}));
            if mode == "main" || marker.starts_with("unknown") || marker.starts_with("handler") || crashes > 60 {
                machinery_or_finish(&mut run);
            }
            skip.push(what);
        }
    }
    if results.len() == 2 {
        // merge
        let mut m = results[0].clone();
        for k in ["inputs", "accepted", "rejected"] {
            m[k] = json!(m[k].as_u64().unwrap_or(0) + results[1][k].as_u64().unwrap_or(0));
        }
        m["max_alloc_over_bound_milli"] = json!(m["max_alloc_over_bound_milli"].as_u64().unwrap_or(0).max(results[1]["max_alloc_over_bound_milli"].as_u64().unwrap_or(0)));
        m["structural_extremes"] = results[1]["structural_extremes"].clone();
        let mut vs = m["violations"].as_array().cloned().unwrap_or_default();
        vs.extend(results[1]["violations"].as_array().cloned().unwrap_or_default());
        m["violations"] = json!(vs);
        line = Some(format!("C12-CHILD-RESULT {}", m));
    }
    run.set("child_crashes", crashes);
    match line {
        None => {
            run.set("evaluations", 1);
            run.set("distinct_nontrivial", 2);
            run.finish();
        }
        Some(l) => {
            let v: serde_json::Value = serde_json::from_str(&l["C12-CHILD-RESULT ".len()..]).unwrap_or_else(|e| machinery_failure(&format!("bad child result: {}", e)));
            for x in v["violations"].as_array().cloned().unwrap_or_default() {
                run.violation(x["signature"].as_str().unwrap_or("?").to_string(), x["what"].as_str().unwrap_or("").to_string(), x["detail"].clone());
            }
            let inputs = v["inputs"].as_u64().unwrap_or(0) + v["handler_cases"].as_u64().unwrap_or(0);
            run.set("evaluations", inputs);
            run.set("distinct_nontrivial", v["rejected"].as_u64().unwrap_or(0) + v["accepted"].as_u64().unwrap_or(0));
            for k in ["accepted", "rejected", "max_alloc_over_bound_milli", "corpus_messages", "structural_extremes", "handler_cases"] {
                run.set(k, v[k].clone());
            }
            run.set("exhaustive", true);
            run.sample(json!({"parser": "UdpRequest(70)", "mutation": "single-bit flip of bit 83 of a valid announce"}));
            run.sample(json!({"parser": "WsIn(true)", "input": "[[[[… (32768 deep)"}));
            run.sample(json!({"handler": "udp", "numwant": i32::MIN, "left": i64::MIN, "n": 40, "max_response_peers": 0}));
            if v["accepted"].as_u64().unwrap_or(0) < 1000 || v["rejected"].as_u64().unwrap_or(0) < 1000 {
                machinery_failure("vacuous: too few accepted or rejected inputs");
            }
            run.finish();
        }
    }
}
