//! C07 — HTTP swarm bookkeeping equals a reference tracker (seqmc).

use crate::common::*;
use crate::http_sys::HttpSys;
use crate::seqmc::{self, Limits};
use crate::udp_sys::*;

pub fn systems(tier: Tier) -> Vec<(HttpSys, Limits, bool)> {
    let th = num_threads();
    let wall = if tier.thorough() { 900.0 } else { 100.0 };
    let mut v = Vec::new();
    let base = |name: &'static str| Alphabet {
        name,
        opts: WorldOpts { hashes: vec![0], families: vec![true], ..Default::default() },
        keys: 5,
        kinds: vec![Kind::Leech, Kind::Seed, Kind::Stop0],
        pids: None,
        ages: vec![1],
        lags: vec![0],
        numwants: vec![-1],
        scrapes: vec![vec![0]],
        clock_max: 1,
        reloads: vec![],
        clean: true,
    };
    // A1: one torrent, 5 (quick) / 6 (thorough) keys crossing the inline(<=4) <-> heap switch, order-free key, to fixpoint
    v.push((
        HttpSys { a: Alphabet { keys: if tier.thorough() { 6 } else { 5 }, clock_max: if tier.thorough() { 2 } else { 1 }, ..base("A1-orderfree") }, max_scrape: 100, order_free_key: true },
        Limits { max_depth: 64, max_states: 6_000_000, max_wall_s: wall, threads: th },
        true,
    ));
    // A1': storage order in the key, 5 keys, depth-bounded: cross-checks that dropping order hid nothing
    v.push((
        HttpSys { a: Alphabet { kinds: vec![Kind::Leech, Kind::Seed, Kind::StartedLeech, Kind::Stop0, Kind::Stop5], numwants: vec![-1, 0, 2], ..base("A1p-ordered") }, max_scrape: 100, order_free_key: false },
        Limits { max_depth: if tier.thorough() { 8 } else { 6 }, max_states: 3_000_000, max_wall_s: wall, threads: th },
        false,
    ));
    // A2: two torrents x two families, scrape alphabet with repeats, unknown hashes, more hashes than the limit (2)
    v.push((
        HttpSys {
            a: Alphabet {
                opts: WorldOpts { hashes: vec![0, 1], families: vec![true, false], ..Default::default() },
                keys: 1,
                scrapes: vec![vec![0, 0], vec![1, 0, NEVER], vec![NEVER, 1, 1, 0], vec![0, 0, 1], vec![]],
                clock_max: 2,
                ..base("A2-2x2-scrapelimit2")
            },
            max_scrape: 2,
            order_free_key: false,
        },
        Limits { max_depth: 64, max_states: 3_000_000, max_wall_s: wall, threads: th },
        true,
    ));
    // A3: IPv6, stop for never-seen torrents, inline only
    v.push((
        HttpSys {
            a: Alphabet {
                opts: WorldOpts { hashes: vec![0, 1], families: vec![false], ..Default::default() },
                keys: 2,
                kinds: vec![Kind::Leech, Kind::Seed, Kind::StartedSeed, Kind::Stop0, Kind::Stop5],
                scrapes: vec![vec![0, 1, 0]],
                clock_max: 2,
                ..base("A3-v6")
            },
            max_scrape: 100,
            order_free_key: false,
        },
        Limits { max_depth: 64, max_states: 3_000_000, max_wall_s: wall, threads: th },
        true,
    ));
    v
}

pub fn main(args: &Args) -> ! {
    let mut run = Run::new(args, "model_checking");
    run.set("engine", "seqmc: BFS over event histories on aquatic_http's swarm storage (hook H4), mock clock (hook H1), dedup on (reference model, verif_dump, clock)");
    run.set("exhaustive", true);
    run.assume("values outside the alphabets are not explored; mock clock never goes backwards");
    if let Some(p) = &args.replay {
        let r = load_replay(p);
        let systems: Vec<HttpSys> = systems(Tier::Thorough).into_iter().map(|x| x.0).collect();
        if !seqmc::replay_from_file(&mut run, &r, &systems) {
            machinery_failure("replay file does not belong to this check");
        }
        run.finish();
    }
    for (s, lim, need_fix) in systems(args.tier) {
        seqmc::run_bfs(&mut run, &s, &lim, need_fix);
    }
    run.finish();
}
