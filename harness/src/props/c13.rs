//! C13 — UDP wire codec conforms to BEP 15 and round-trips (exhaustive over a constructed input space).
//! The reference encoder / decoder below is written from BEP 15 with explicit offsets, sharing no code
//! with aquatic_udp_protocol.

use std::num::NonZeroU16;

use aquatic_udp_protocol::*;
use serde_json::json;

use crate::common::*;

const PROTOCOL_ID: i64 = 0x0417_2710_1980;

// ------------------------------------------------------------------ reference codec (BEP 15)

#[derive(Clone, Debug, PartialEq, Eq)]
pub struct RefAnnounce {
    pub connection_id: i64,
    pub transaction_id: i32,
    pub info_hash: [u8; 20],
    pub peer_id: [u8; 20],
    pub downloaded: i64,
    pub left: i64,
    pub uploaded: i64,
    pub event: i32,
    pub ip: [u8; 4],
    pub key: i32,
    pub num_want: i32,
    pub port: u16,
}

#[derive(Clone, Debug, PartialEq, Eq)]
pub enum RefRequest {
    Connect { transaction_id: i32 },
    Announce(RefAnnounce),
    Scrape { connection_id: i64, transaction_id: i32, info_hashes: Vec<[u8; 20]> },
}

pub fn ref_encode_request(r: &RefRequest) -> Vec<u8> {
    let mut b = Vec::new();
    match r {
        RefRequest::Connect { transaction_id } => {
            b.extend_from_slice(&PROTOCOL_ID.to_be_bytes());
            b.extend_from_slice(&0i32.to_be_bytes());
            b.extend_from_slice(&transaction_id.to_be_bytes());
        }
        RefRequest::Announce(a) => {
            b.extend_from_slice(&a.connection_id.to_be_bytes()); // 0
            b.extend_from_slice(&1i32.to_be_bytes()); // 8
            b.extend_from_slice(&a.transaction_id.to_be_bytes()); // 12
            b.extend_from_slice(&a.info_hash); // 16
            b.extend_from_slice(&a.peer_id); // 36
            b.extend_from_slice(&a.downloaded.to_be_bytes()); // 56
            b.extend_from_slice(&a.left.to_be_bytes()); // 64
            b.extend_from_slice(&a.uploaded.to_be_bytes()); // 72
            b.extend_from_slice(&a.event.to_be_bytes()); // 80
            b.extend_from_slice(&a.ip); // 84
            b.extend_from_slice(&a.key.to_be_bytes()); // 88
            b.extend_from_slice(&a.num_want.to_be_bytes()); // 92
            b.extend_from_slice(&a.port.to_be_bytes()); // 96
        }
        RefRequest::Scrape { connection_id, transaction_id, info_hashes } => {
            b.extend_from_slice(&connection_id.to_be_bytes());
            b.extend_from_slice(&2i32.to_be_bytes());
            b.extend_from_slice(&transaction_id.to_be_bytes());
            for h in info_hashes {
                b.extend_from_slice(h);
            }
        }
    }
    b
}

fn be_i32(b: &[u8], o: usize) -> i32 {
    i32::from_be_bytes([b[o], b[o + 1], b[o + 2], b[o + 3]])
}
fn be_i64(b: &[u8], o: usize) -> i64 {
    let mut x = [0u8; 8];
    x.copy_from_slice(&b[o..o + 8]);
    i64::from_be_bytes(x)
}
fn arr20(b: &[u8], o: usize) -> [u8; 20] {
    let mut x = [0u8; 20];
    x.copy_from_slice(&b[o..o + 20]);
    x
}

/// None = must be rejected
pub fn ref_decode_request(b: &[u8], max_scrape: u8) -> Option<RefRequest> {
    if b.len() < 16 {
        return None;
    }
    match be_i32(b, 8) {
        0 => {
            if be_i64(b, 0) != PROTOCOL_ID {
                return None;
            }
            Some(RefRequest::Connect { transaction_id: be_i32(b, 12) })
        }
        1 => {
            if b.len() < 98 {
                return None;
            }
            let event = be_i32(b, 80);
            if !(0..=3).contains(&event) {
                return None;
            }
            let port = u16::from_be_bytes([b[96], b[97]]);
            if port == 0 {
                return None;
            }
            Some(RefRequest::Announce(RefAnnounce {
                connection_id: be_i64(b, 0),
                transaction_id: be_i32(b, 12),
                info_hash: arr20(b, 16),
                peer_id: arr20(b, 36),
                downloaded: be_i64(b, 56),
                left: be_i64(b, 64),
                uploaded: be_i64(b, 72),
                event,
                ip: [b[84], b[85], b[86], b[87]],
                key: be_i32(b, 88),
                num_want: be_i32(b, 92),
                port,
            }))
        }
        2 => {
            let rest = &b[16..];
            if rest.is_empty() || rest.len() % 20 != 0 {
                return None;
            }
            let n = (rest.len() / 20).min(max_scrape as usize);
            Some(RefRequest::Scrape { connection_id: be_i64(b, 0), transaction_id: be_i32(b, 12), info_hashes: (0..n).map(|i| arr20(rest, i * 20)).collect() })
        }
        _ => None,
    }
}

#[derive(Clone, Debug, PartialEq, Eq)]
pub enum RefResponse {
    Connect { transaction_id: i32, connection_id: i64 },
    Announce { transaction_id: i32, interval: i32, leechers: i32, seeders: i32, peers: Vec<(Vec<u8>, u16)> },
    Scrape { transaction_id: i32, stats: Vec<(i32, i32, i32)> }, // seeders, completed, leechers
    Error { transaction_id: i32, message: Vec<u8> },
}

pub fn ref_encode_response(r: &RefResponse) -> Vec<u8> {
    let mut b = Vec::new();
    match r {
        RefResponse::Connect { transaction_id, connection_id } => {
            b.extend_from_slice(&0i32.to_be_bytes());
            b.extend_from_slice(&transaction_id.to_be_bytes());
            b.extend_from_slice(&connection_id.to_be_bytes());
        }
        RefResponse::Announce { transaction_id, interval, leechers, seeders, peers } => {
            b.extend_from_slice(&1i32.to_be_bytes());
            b.extend_from_slice(&transaction_id.to_be_bytes());
            b.extend_from_slice(&interval.to_be_bytes());
            b.extend_from_slice(&leechers.to_be_bytes());
            b.extend_from_slice(&seeders.to_be_bytes());
            for (ip, port) in peers {
                b.extend_from_slice(ip);
                b.extend_from_slice(&port.to_be_bytes());
            }
        }
        RefResponse::Scrape { transaction_id, stats } => {
            b.extend_from_slice(&2i32.to_be_bytes());
            b.extend_from_slice(&transaction_id.to_be_bytes());
            for (s, c, l) in stats {
                b.extend_from_slice(&s.to_be_bytes());
                b.extend_from_slice(&c.to_be_bytes());
                b.extend_from_slice(&l.to_be_bytes());
            }
        }
        RefResponse::Error { transaction_id, message } => {
            b.extend_from_slice(&3i32.to_be_bytes());
            b.extend_from_slice(&transaction_id.to_be_bytes());
            b.extend_from_slice(message);
        }
    }
    b
}

pub fn ref_decode_response(b: &[u8], v4: bool) -> Option<RefResponse> {
    if b.len() < 8 {
        return None;
    }
    let tx = be_i32(b, 4);
    match be_i32(b, 0) {
        0 => (b.len() == 16).then(|| RefResponse::Connect { transaction_id: tx, connection_id: be_i64(b, 8) }),
        1 => {
            if b.len() < 20 {
                return None;
            }
            let w = if v4 { 6 } else { 18 };
            let rest = &b[20..];
            if rest.len() % w != 0 {
                return None;
            }
            Some(RefResponse::Announce {
                transaction_id: tx,
                interval: be_i32(b, 8),
                leechers: be_i32(b, 12),
                seeders: be_i32(b, 16),
                peers: rest.chunks(w).map(|c| (c[..w - 2].to_vec(), u16::from_be_bytes([c[w - 2], c[w - 1]]))).collect(),
            })
        }
        2 => {
            let rest = &b[8..];
            if rest.len() % 12 != 0 {
                return None;
            }
            Some(RefResponse::Scrape { transaction_id: tx, stats: rest.chunks(12).map(|c| (be_i32(c, 0), be_i32(c, 4), be_i32(c, 8))).collect() })
        }
        3 => Some(RefResponse::Error { transaction_id: tx, message: b[8..].to_vec() }),
        _ => None,
    }
}

// ------------------------------------------------------------------ bridges between library values and reference values

fn lib_event(e: i32) -> AnnounceEvent {
    match e {
        0 => AnnounceEvent::None,
        1 => AnnounceEvent::Completed,
        2 => AnnounceEvent::Started,
        _ => AnnounceEvent::Stopped,
    }
}

fn event_num(e: AnnounceEvent) -> i32 {
    match e {
        AnnounceEvent::None => 0,
        AnnounceEvent::Completed => 1,
        AnnounceEvent::Started => 2,
        AnnounceEvent::Stopped => 3,
    }
}

pub fn to_lib_request(r: &RefRequest) -> Request {
    match r {
        RefRequest::Connect { transaction_id } => Request::Connect(ConnectRequest { transaction_id: TransactionId::new(*transaction_id) }),
        RefRequest::Announce(a) => Request::Announce(AnnounceRequest {
            connection_id: ConnectionId::new(a.connection_id),
            action_placeholder: Default::default(),
            transaction_id: TransactionId::new(a.transaction_id),
            info_hash: InfoHash(a.info_hash),
            peer_id: PeerId(a.peer_id),
            bytes_downloaded: NumberOfBytes::new(a.downloaded),
            bytes_left: NumberOfBytes::new(a.left),
            bytes_uploaded: NumberOfBytes::new(a.uploaded),
            event: lib_event(a.event),
            ip_address: Ipv4AddrBytes(a.ip),
            key: PeerKey::new(a.key),
            peers_wanted: NumberOfPeers::new(a.num_want),
            port: Port::new(NonZeroU16::new(a.port).expect("nonzero port")),
        }),
        RefRequest::Scrape { connection_id, transaction_id, info_hashes } => Request::Scrape(ScrapeRequest {
            connection_id: ConnectionId::new(*connection_id),
            transaction_id: TransactionId::new(*transaction_id),
            info_hashes: info_hashes.iter().map(|h| InfoHash(*h)).collect(),
        }),
    }
}

pub fn from_lib_request(r: &Request) -> RefRequest {
    match r {
        Request::Connect(c) => RefRequest::Connect { transaction_id: c.transaction_id.0.get() },
        Request::Announce(a) => {
            let a = *a;
            RefRequest::Announce(RefAnnounce {
                connection_id: { a.connection_id }.0.get(),
                transaction_id: { a.transaction_id }.0.get(),
                info_hash: { a.info_hash }.0,
                peer_id: { a.peer_id }.0,
                downloaded: { a.bytes_downloaded }.0.get(),
                left: { a.bytes_left }.0.get(),
                uploaded: { a.bytes_uploaded }.0.get(),
                event: event_num({ a.event }),
                ip: { a.ip_address }.0,
                key: { a.key }.0.get(),
                num_want: { a.peers_wanted }.0.get(),
                port: { a.port }.0.get(),
            })
        }
        Request::Scrape(s) => RefRequest::Scrape { connection_id: s.connection_id.0.get(), transaction_id: s.transaction_id.0.get(), info_hashes: s.info_hashes.iter().map(|h| h.0).collect() },
    }
}

pub fn to_lib_response(r: &RefResponse, v4: bool) -> Response {
    match r {
        RefResponse::Connect { transaction_id, connection_id } => Response::Connect(ConnectResponse { transaction_id: TransactionId::new(*transaction_id), connection_id: ConnectionId::new(*connection_id) }),
        RefResponse::Announce { transaction_id, interval, leechers, seeders, peers } => {
            let fixed = AnnounceResponseFixedData {
                transaction_id: TransactionId::new(*transaction_id),
                announce_interval: AnnounceInterval::new(*interval),
                leechers: NumberOfPeers::new(*leechers),
                seeders: NumberOfPeers::new(*seeders),
            };
            if v4 {
                Response::AnnounceIpv4(AnnounceResponse {
                    fixed,
                    peers: peers.iter().map(|(ip, p)| ResponsePeer { ip_address: Ipv4AddrBytes([ip[0], ip[1], ip[2], ip[3]]), port: mk_port(*p) }).collect(),
                })
            } else {
                Response::AnnounceIpv6(AnnounceResponse {
                    fixed,
                    peers: peers
                        .iter()
                        .map(|(ip, p)| {
                            let mut x = [0u8; 16];
                            x.copy_from_slice(ip);
                            ResponsePeer { ip_address: Ipv6AddrBytes(x), port: mk_port(*p) }
                        })
                        .collect(),
                })
            }
        }
        RefResponse::Scrape { transaction_id, stats } => Response::Scrape(ScrapeResponse {
            transaction_id: TransactionId::new(*transaction_id),
            torrent_stats: stats.iter().map(|(s, c, l)| TorrentScrapeStatistics { seeders: NumberOfPeers::new(*s), completed: NumberOfDownloads::new(*c), leechers: NumberOfPeers::new(*l) }).collect(),
        }),
        RefResponse::Error { transaction_id, message } => Response::Error(ErrorResponse { transaction_id: TransactionId::new(*transaction_id), message: String::from_utf8_lossy(message).into_owned().into() }),
    }
}

fn mk_port(v: u16) -> Port {
    Port::new(NonZeroU16::new(v).expect("nonzero port"))
}

pub fn from_lib_response(r: &Response) -> RefResponse {
    match r {
        Response::Connect(c) => {
            let c = *c;
            RefResponse::Connect { transaction_id: { c.transaction_id }.0.get(), connection_id: { c.connection_id }.0.get() }
        }
        Response::AnnounceIpv4(a) => {
            let f = a.fixed;
            RefResponse::Announce {
                transaction_id: { f.transaction_id }.0.get(),
                interval: { f.announce_interval }.0.get(),
                leechers: { f.leechers }.0.get(),
                seeders: { f.seeders }.0.get(),
                peers: a.peers.iter().map(|p| { let p = *p; ({ p.ip_address }.0.to_vec(), { p.port }.0.get()) }).collect(),
            }
        }
        Response::AnnounceIpv6(a) => {
            let f = a.fixed;
            RefResponse::Announce {
                transaction_id: { f.transaction_id }.0.get(),
                interval: { f.announce_interval }.0.get(),
                leechers: { f.leechers }.0.get(),
                seeders: { f.seeders }.0.get(),
                peers: a.peers.iter().map(|p| { let p = *p; ({ p.ip_address }.0.to_vec(), { p.port }.0.get()) }).collect(),
            }
        }
        Response::Scrape(s) => RefResponse::Scrape {
            transaction_id: s.transaction_id.0.get(),
            stats: s.torrent_stats.iter().map(|t| { let t = *t; ({ t.seeders }.0.get(), { t.completed }.0.get(), { t.leechers }.0.get()) }).collect(),
        },
        Response::Error(e) => RefResponse::Error { transaction_id: e.transaction_id.0.get(), message: e.message.as_bytes().to_vec() },
    }
}

// ------------------------------------------------------------------ the check

pub struct Ctx<'a> {
    pub run: &'a mut Run,
    pub evals: u64,
    pub kinds: std::collections::BTreeSet<String>,
    pub distinct: std::collections::HashSet<u64>,
}

impl<'a> Ctx<'a> {
    fn fail(&mut self, sig: &str, what: String, bytes: &[u8], max_scrape: u8, v4: bool) {
        self.run.violation(sig, what, json!({"signature": sig, "bytes": hex::encode(bytes), "max_scrape_torrents": max_scrape, "ipv4": v4, "side": if sig.starts_with("udpcodec/request") { "request" } else { "response" }}));
    }

    /// bytes -> library parser vs reference decoder
    pub fn check_request_bytes(&mut self, bytes: &[u8], max_scrape: u8, label: &str) {
        self.evals += 1;
        self.distinct.insert(fp64(&(bytes, max_scrape)));
        let exp = ref_decode_request(bytes, max_scrape);
        let got = std::panic::catch_unwind(|| Request::parse_bytes(bytes, max_scrape));
        match got {
            Err(e) => self.fail("udpcodec/request/panic", format!("Request::parse_bytes panicked ({}): {}", label, panic_message(&e)), bytes, max_scrape, true),
            Ok(got) => match (got, exp) {
                (Ok(g), Some(e)) => {
                    let g2 = from_lib_request(&g);
                    if g2 != e {
                        self.fail("udpcodec/request/field-values", format!("parsed request differs from BEP 15 decoding ({}): got {:?}, expected {:?}", label, g2, e), bytes, max_scrape, true);
                    }
                    self.kinds.insert(format!("req-accept-{}", match e { RefRequest::Connect { .. } => "connect", RefRequest::Announce(_) => "announce", RefRequest::Scrape { .. } => "scrape" }));
                }
                (Err(err), None) => {
                    // where the error carries ids they must be the request's
                    if let RequestParseError::Sendable { connection_id, transaction_id, .. } = err {
                        if bytes.len() >= 16 && (connection_id.0.get() != be_i64(bytes, 0) || transaction_id.0.get() != be_i32(bytes, 12)) {
                            self.fail("udpcodec/request/error-ids", format!("sendable parse error carries ids that are not the request's ({})", label), bytes, max_scrape, true);
                        }
                    }
                    self.kinds.insert("req-reject".into());
                }
                (Ok(g), None) => self.fail("udpcodec/request/accepted-nonconforming", format!("non-conforming datagram accepted ({}): {:?}", label, g), bytes, max_scrape, true),
                (Err(err), Some(e)) => self.fail("udpcodec/request/rejected-conforming", format!("conforming datagram rejected ({}): {:?}; BEP 15 decoding {:?}", label, err, e), bytes, max_scrape, true),
            },
        }
    }

    /// value -> library writer vs reference encoder, then parse back
    pub fn check_request_value(&mut self, r: &RefRequest, ext: &[u8]) {
        self.evals += 1;
        let lib = to_lib_request(r);
        let mut out = Vec::new();
        if let Err(e) = lib.write_bytes(&mut out) {
            self.fail("udpcodec/request/write-error", format!("write_bytes failed: {}", e), &[], 255, true);
            return;
        }
        let exp = ref_encode_request(r);
        self.distinct.insert(fp64(&exp));
        if out != exp {
            self.fail("udpcodec/request/layout", format!("write_bytes output differs from the BEP 15 layout for {:?}: got {} expected {}", r, hex::encode(&out), hex::encode(&exp)), &out, 255, true);
        }
        match Request::parse_bytes(&out, 255) {
            Ok(back) if back == lib => {}
            other => self.fail("udpcodec/request/roundtrip", format!("parse(write(m)) != m for {:?}: {:?}", r, other), &out, 255, true),
        }
        if !ext.is_empty() {
            let mut with_ext = exp.clone();
            with_ext.extend_from_slice(ext);
            self.check_request_bytes(&with_ext, 255, "with extension bytes");
        }
    }

    pub fn check_response_value(&mut self, r: &RefResponse, v4: bool) {
        self.evals += 1;
        let lib = to_lib_response(r, v4);
        let mut out = Vec::new();
        if let Err(e) = lib.write_bytes(&mut out) {
            self.fail("udpcodec/response/write-error", format!("write_bytes failed: {}", e), &[], 0, v4);
            return;
        }
        let exp = ref_encode_response(r);
        self.distinct.insert(fp64(&(&exp, v4)));
        if out != exp {
            self.fail("udpcodec/response/layout", format!("write_bytes output differs from the BEP 15 layout for {:?}", short(r)), &out, 0, v4);
        }
        self.check_response_bytes(&exp, v4, "written by reference encoder");
        match Response::parse_bytes(&out, v4) {
            Ok(back) if back == lib => {}
            other => self.fail("udpcodec/response/roundtrip", format!("parse(write(m)) != m for {:?}: {:?}", short(r), other.map(|r| short(&from_lib_response(&r)))), &out, 0, v4),
        }
    }

    pub fn check_response_bytes(&mut self, bytes: &[u8], v4: bool, label: &str) {
        self.evals += 1;
        self.distinct.insert(fp64(&(bytes, v4, 1u8)));
        let exp = ref_decode_response(bytes, v4);
        let got = std::panic::catch_unwind(|| Response::parse_bytes(bytes, v4));
        match got {
            Err(e) => self.fail("udpcodec/response/panic", format!("Response::parse_bytes panicked ({}): {}", label, panic_message(&e)), bytes, 0, v4),
            Ok(Ok(g)) => match exp {
                Some(e) => {
                    let mut g2 = from_lib_response(&g);
                    // error text is compared as (lossy) text
                    if let (RefResponse::Error { message: m1, .. }, RefResponse::Error { message: m2, .. }) = (&mut g2, &e) {
                        if *m1 == String::from_utf8_lossy(m2).as_bytes() {
                            *m1 = m2.clone();
                        }
                    }
                    if g2 != e {
                        self.fail("udpcodec/response/field-values", format!("parsed response differs from BEP 15 decoding ({}): got {:?} expected {:?}", label, short(&g2), short(&e)), bytes, 0, v4);
                    }
                    self.kinds.insert(format!("resp-accept-{}", match e { RefResponse::Connect { .. } => "connect", RefResponse::Announce { .. } => "announce", RefResponse::Scrape { .. } => "scrape", RefResponse::Error { .. } => "error" }));
                }
                None => self.fail("udpcodec/response/accepted-nonconforming", format!("malformed reply accepted ({}): {:?}", label, short(&from_lib_response(&g))), bytes, 0, v4),
            },
            Ok(Err(err)) => {
                if let Some(e) = exp {
                    self.fail("udpcodec/response/rejected-conforming", format!("conforming reply rejected ({}): {}; BEP 15 decoding {:?}", label, err, short(&e)), bytes, 0, v4);
                }
                self.kinds.insert("resp-reject".into());
            }
        }
    }
}

fn short(r: &RefResponse) -> String {
    let s = format!("{:?}", r);
    if s.len() > 300 {
        format!("{}…", &s[..300])
    } else {
        s
    }
}

pub fn base_announce() -> RefAnnounce {
    RefAnnounce {
        connection_id: 0x0102_0304_0506_0708,
        transaction_id: 0x1122_3344,
        info_hash: core::array::from_fn(|i| i as u8),
        peer_id: core::array::from_fn(|i| 0xa0 + i as u8),
        downloaded: 0x0a0b_0c0d_0e0f_1011,
        left: 0x2021_2223_2425_2627,
        uploaded: 0x3031_3233_3435_3637,
        event: 2,
        ip: [1, 2, 3, 4],
        key: 0x4142_4344,
        num_want: 0x5152_5354,
        port: 0x6162,
    }
}

pub fn main(args: &Args) -> ! {
    let mut run = Run::new(args, "exploration");
    run.set("rule", "constructed space: connect x transaction ids x lengths; announce: full product event x port x numwant x left with rotating values for the other fields, every single field swept, downloaded x left x uploaded product, 0/1/2/300 extension bytes; every truncation length; unknown events / actions / protocol ids; scrape with 0..=420 hashes x 8 limits and non-multiple lengths; replies: connect, announce v4/v6 with 0..=80 peers, scrape with 0..=255 entries, errors; every truncation of every reply kind. distinct = distinct byte strings / values; non-trivial = all (every case is compared with the independent BEP 15 codec)");
    run.assume("the independent BEP 15 codec in c13.rs is the specification (explicit big-endian bytes at literal offsets)");
    let thorough = args.tier.thorough();

    if let Some(p) = &args.replay {
        let r = load_replay(p);
        let d = &r["detail"];
        let bytes = hex::decode(d["bytes"].as_str().unwrap_or("")).unwrap_or_default();
        let ms = d["max_scrape_torrents"].as_u64().unwrap_or(255) as u8;
        let v4 = d["ipv4"].as_bool().unwrap_or(true);
        let side = d["side"].as_str().unwrap_or("request").to_string();
        let mut ctx = Ctx { run: &mut run, evals: 0, kinds: Default::default(), distinct: Default::default() };
        if side == "request" {
            ctx.check_request_bytes(&bytes, ms, "replay");
            if let Some(v) = ref_decode_request(&bytes, ms) {
                ctx.check_request_value(&v, &[]);
            }
        } else {
            ctx.check_response_bytes(&bytes, v4, "replay");
            if let Some(v) = ref_decode_response(&bytes, v4) {
                ctx.check_response_value(&v, v4);
            }
        }
        run.set("evaluations", 1);
        run.set("distinct_nontrivial", 2);
        run.finish();
    }

    let v32: Vec<i32> = vec![0, 1, -1, i32::MIN, i32::MAX, 0x0102_0304];
    let v64: Vec<i64> = vec![0, 1, -1, i64::MIN, i64::MAX, 0x0102_0304_0506_0708];
    let ports: Vec<u16> = vec![1, 255, 256, 65535];
    let ids: Vec<[u8; 20]> = vec![[0; 20], [0xff; 20], core::array::from_fn(|i| i as u8)];
    let ips: Vec<[u8; 4]> = vec![[0; 4], [1, 2, 3, 4]];
    let exts: Vec<Vec<u8>> = vec![vec![], vec![0], vec![0xff, 0x01], vec![0x5a; 300]];

    let mut ctx = Ctx { run: &mut run, evals: 0, kinds: Default::default(), distinct: Default::default() };

    // ---- connect
    for tx in &v32 {
        let r = RefRequest::Connect { transaction_id: *tx };
        for ext in &exts {
            ctx.check_request_value(&r, ext);
        }
        let b = ref_encode_request(&r);
        for n in 0..b.len() {
            ctx.check_request_bytes(&b[..n], 255, "truncated connect");
        }
        for off in 0..8 {
            let mut bad = b.clone();
            bad[off] ^= 0x01;
            ctx.check_request_bytes(&bad, 255, "wrong protocol id");
        }
    }
    // ---- unknown actions
    for action in [3i32, 4, -1, 0x0100_0000, 0x0200_0000, i32::MAX] {
        let mut b = ref_encode_request(&RefRequest::Announce(base_announce()));
        b[8..12].copy_from_slice(&action.to_be_bytes());
        ctx.check_request_bytes(&b, 255, "unknown action");
        ctx.check_request_bytes(&b[..16], 255, "unknown action, 16 bytes");
    }
    // ---- announce: product event x port x numwant x left, others rotating
    let mut rot = 0usize;
    for event in 0..4 {
        for port in &ports {
            for nw in &v32 {
                for left in &v64 {
                    for k in 0..(if thorough { 6 } else { 2 }) {
                        rot += 1;
                        let r = rot + k * 7;
                        let a = RefAnnounce {
                            connection_id: v64[r % 6],
                            transaction_id: v32[(r / 2) % 6],
                            info_hash: ids[r % 3],
                            peer_id: ids[(r / 3) % 3],
                            downloaded: v64[(r / 5) % 6],
                            left: *left,
                            uploaded: v64[(r / 7) % 6],
                            event,
                            ip: ips[r % 2],
                            key: v32[(r / 11) % 6],
                            num_want: *nw,
                            port: *port,
                        };
                        ctx.check_request_value(&RefRequest::Announce(a), &exts[r % 4]);
                    }
                }
            }
        }
    }
    // every single field swept with distinctive defaults (catches two fields swapped)
    {
        let b = base_announce();
        for x in &v64 {
            for (i, _) in [0, 1, 2, 3].iter().enumerate() {
                let mut a = b.clone();
                match i {
                    0 => a.connection_id = *x,
                    1 => a.downloaded = *x,
                    2 => a.left = *x,
                    _ => a.uploaded = *x,
                }
                ctx.check_request_value(&RefRequest::Announce(a), &[]);
            }
        }
        for x in &v32 {
            for i in 0..3 {
                let mut a = b.clone();
                match i {
                    0 => a.transaction_id = *x,
                    1 => a.key = *x,
                    _ => a.num_want = *x,
                }
                ctx.check_request_value(&RefRequest::Announce(a), &[]);
            }
        }
        for d in &v64 {
            for l in &v64 {
                for u in &v64 {
                    let mut a = b.clone();
                    a.downloaded = *d;
                    a.left = *l;
                    a.uploaded = *u;
                    ctx.check_request_value(&RefRequest::Announce(a), &[]);
                }
            }
        }
        for pos in 0..20 {
            for val in [0u8, 1, 0x7f, 0x80, 0xff] {
                let mut a = b.clone();
                a.info_hash[pos] = val;
                a.peer_id[19 - pos] = val;
                ctx.check_request_value(&RefRequest::Announce(a), &[]);
            }
        }
        // truncation at every length, port 0, unknown events
        let bytes = ref_encode_request(&RefRequest::Announce(b.clone()));
        for n in 0..bytes.len() {
            ctx.check_request_bytes(&bytes[..n], 255, "truncated announce");
        }
        let mut p0 = bytes.clone();
        p0[96] = 0;
        p0[97] = 0;
        ctx.check_request_bytes(&p0, 255, "port 0");
        for ev in [4i32, 5, -1, i32::MIN, 0x0100_0000, 0x0200_0000, 0x0300_0000, 256] {
            let mut e = bytes.clone();
            e[80..84].copy_from_slice(&ev.to_be_bytes());
            ctx.check_request_bytes(&e, 255, "unknown event");
        }
        // every single-bit flip of a valid announce: decoded identically by both
        for bit in 0..(bytes.len() * 8) {
            let mut f = bytes.clone();
            f[bit / 8] ^= 1 << (bit % 8);
            ctx.check_request_bytes(&f, 255, "bit flip");
        }
    }
    // ---- scrape
    // thorough: every limit a u8 can hold
    let limits: Vec<u8> = if thorough { (0..=255).collect() } else { vec![0, 1, 2, 69, 70, 71, 254, 255] };
    // up to 420 hashes: more than a u8 can count and more than fit the tracker's 8192-byte receive buffer (408)
    for n in 0..=420usize {
        let hashes: Vec<[u8; 20]> = (0..n).map(|i| core::array::from_fn(|j| (i as u8).wrapping_mul(7).wrapping_add(j as u8).wrapping_add((i >> 8) as u8))).collect();
        let r = RefRequest::Scrape { connection_id: v64[n % 6], transaction_id: v32[n % 6], info_hashes: hashes };
        let b = ref_encode_request(&r);
        if n > 0 && n <= 255 {
            // parse(write(m)) == m is checked against the largest limit (255)
            ctx.check_request_value(&r, &[]);
        }
        for m in &limits {
            ctx.check_request_bytes(&b, *m, "scrape n hashes vs limit");
        }
        // ragged lists at every length, against every limit (a list cut to the limit before its length is checked
        // would hide the ragged tail): 1 and 19 surplus bytes everywhere, every surplus 1..=19 near the boundaries
        let extras: Vec<usize> = if thorough || n <= 3 || (69..=72).contains(&n) || (254..=257).contains(&n) { (1..20).collect() } else { vec![1, 19] };
        for extra in extras {
            let mut x = b.clone();
            x.extend(std::iter::repeat(0xab).take(extra));
            for m in &limits {
                ctx.check_request_bytes(&x, *m, "hash list not a multiple of 20");
            }
        }
        if n <= 3 {
            for t in 0..b.len() {
                ctx.check_request_bytes(&b[..t], 70, "truncated scrape");
            }
        }
    }
    // ---- replies
    for tx in &v32 {
        for c in &v64 {
            ctx.check_response_value(&RefResponse::Connect { transaction_id: *tx, connection_id: *c }, true);
            ctx.check_response_value(&RefResponse::Connect { transaction_id: *tx, connection_id: *c }, false);
        }
    }
    for v4 in [true, false] {
        let w = if v4 { 4 } else { 16 };
        for n in 0..=80usize {
            let peers: Vec<(Vec<u8>, u16)> = (0..n).map(|i| ((0..w).map(|j| (i * 13 + j * 3 + 1) as u8).collect(), [1u16, 255, 256, 65535, 0x1234][i % 5])).collect();
            let r = RefResponse::Announce { transaction_id: v32[n % 6], interval: v32[(n + 1) % 6], leechers: v32[(n + 2) % 6], seeders: v32[(n + 3) % 6], peers };
            ctx.check_response_value(&r, v4);
            if n <= 3 {
                let b = ref_encode_response(&r);
                for t in 0..b.len() {
                    ctx.check_response_bytes(&b[..t], v4, "truncated announce reply");
                }
            }
        }
        // distinctive fixed fields (swapped seeders / leechers would show)
        ctx.check_response_value(&RefResponse::Announce { transaction_id: 0x0102_0304, interval: 0x1112_1314, leechers: 0x2122_2324, seeders: 0x3132_3334, peers: vec![] }, v4);
        for n in 0..=255usize {
            let stats: Vec<(i32, i32, i32)> = (0..n).map(|i| (v32[i % 6], v32[(i / 6) % 6], (i as i32) * 3 + 1)).collect();
            let r = RefResponse::Scrape { transaction_id: v32[n % 6], stats };
            ctx.check_response_value(&r, v4);
            if n <= 2 {
                let b = ref_encode_response(&r);
                for t in 0..b.len() {
                    ctx.check_response_bytes(&b[..t], v4, "truncated scrape reply");
                }
            }
        }
        ctx.check_response_value(&RefResponse::Scrape { transaction_id: 1, stats: vec![(0x0102_0304, 0x1112_1314, 0x2122_2324)] }, v4);
        for msg in ["", "a", "Connection ID mismatch", "Info hash not allowed", "héllo wörld ✓ 𝕊", "x\u{0}y"] {
            for tx in &v32 {
                ctx.check_response_value(&RefResponse::Error { transaction_id: *tx, message: msg.as_bytes().to_vec() }, v4);
            }
        }
        for action in [4i32, -1, 0x0100_0000, i32::MAX] {
            let mut b = ref_encode_response(&RefResponse::Connect { transaction_id: 1, connection_id: 2 });
            b[..4].copy_from_slice(&action.to_be_bytes());
            ctx.check_response_bytes(&b, v4, "unknown reply action");
        }
    }
    let evals = ctx.evals;
    let distinct = ctx.distinct.len() as u64;
    let kinds: Vec<String> = ctx.kinds.iter().cloned().collect();
    run.set("evaluations", evals);
    run.set("distinct_nontrivial", distinct);
    run.set("outcome_kinds", json!(kinds));
    run.set("exhaustive", true);
    run.sample(json!({"announce_request_hex": hex::encode(ref_encode_request(&RefRequest::Announce(base_announce())))}));
    run.sample(json!({"scrape_reply_hex": hex::encode(ref_encode_response(&RefResponse::Scrape { transaction_id: 1, stats: vec![(1, 2, 3)] }))}));
    if kinds.len() < 9 {
        machinery_failure(&format!("vacuous: only {:?} outcome kinds seen", kinds));
    }
    run.finish();
}
