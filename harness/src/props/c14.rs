//! C14 — HTTP wire codec: requests round-trip, replies are canonical bencode (exhaustive over a constructed space).

use std::collections::{BTreeMap, BTreeSet, HashSet};
use std::net::{Ipv4Addr, Ipv6Addr};

use aquatic_http_protocol::common::{AnnounceEvent, InfoHash, PeerId};
use aquatic_http_protocol::request::{AnnounceRequest, Request, ScrapeRequest};
use aquatic_http_protocol::response::*;
use serde_json::json;

use crate::bencode::{self, B};
use crate::common::*;

/// Independent decoder for a 20-byte identifier in a query string: exactly 20 items, each either a
/// character <= U+00FF other than '%', or '%' followed by two hex digits (either case).
/// Ok(Some) = well-formed 20 bytes, Ok(None) = well-formed items but not 20 / char out of range, Err = malformed escape
pub fn ref_urldecode(v: &str) -> Result<Option<[u8; 20]>, ()> {
    let cs: Vec<char> = v.chars().collect();
    let mut out = Vec::new();
    let mut i = 0;
    let mut out_of_range = false;
    while i < cs.len() {
        if cs[i] == '%' {
            if i + 2 >= cs.len() {
                return Err(());
            }
            let (a, b) = (cs[i + 1], cs[i + 2]);
            if !(a.is_ascii_hexdigit() && b.is_ascii_hexdigit()) {
                return Err(());
            }
            out.push((a.to_digit(16).unwrap() * 16 + b.to_digit(16).unwrap()) as u8);
            i += 3;
        } else {
            if cs[i] as u32 > 255 {
                out_of_range = true;
                out.push(0);
            } else {
                out.push(cs[i] as u32 as u8);
            }
            i += 1;
        }
    }
    if out_of_range || out.len() != 20 {
        return Ok(None);
    }
    let mut a = [0u8; 20];
    a.copy_from_slice(&out);
    Ok(Some(a))
}

fn enc_id(id: &[u8; 20], mode: u8) -> String {
    // mode 0: all %xx lower; 1: all %XX upper; 2: raw where safe (as char U+00xx), %xx otherwise
    let mut s = String::new();
    for b in id {
        match mode {
            0 => s.push_str(&format!("%{:02x}", b)),
            1 => s.push_str(&format!("%{:02X}", b)),
            _ => {
                let c = char::from(*b);
                if matches!(*b, b'&' | b'=' | b'%') {
                    s.push_str(&format!("%{:02x}", b));
                } else {
                    s.push(c);
                }
            }
        }
    }
    s
}

struct Ctx<'a> {
    run: &'a mut Run,
    evals: u64,
    distinct: HashSet<u64>,
    kinds: BTreeSet<&'static str>,
}

impl<'a> Ctx<'a> {
    fn fail(&mut self, sig: &str, what: String, detail: serde_json::Value) {
        self.run.violation(sig, what, json!({"signature": sig, "case": detail}));
    }

    fn roundtrip_request(&mut self, r: &Request) {
        self.evals += 1;
        let mut out = Vec::new();
        r.write(&mut out, b"").unwrap();
        self.distinct.insert(fp64(&out));
        let res = std::panic::catch_unwind(|| Request::parse_bytes(&out));
        match res {
            Ok(Ok(Some(back))) if back == *r => {
                self.kinds.insert("request-roundtrip");
            }
            other => {
                let d = json!({"kind": "request-bytes", "bytes": hex::encode(&out)});
                self.fail("httpcodec/request/roundtrip", format!("request written by the library does not parse back equal: wrote {:?}, parse result {:?}", String::from_utf8_lossy(&out), other.map(|r| r.map_err(|e| e.to_string()))), d);
            }
        }
    }

    /// a hand-built path with known expected meaning
    fn path(&mut self, path: &str, expect: Option<&Request>, label: &'static str) {
        self.evals += 1;
        self.distinct.insert(fp64(path));
        let res = std::panic::catch_unwind(|| Request::parse_http_get_path(path));
        let d = json!({"kind": "path", "path": path, "label": label});
        match (res, expect) {
            (Err(e), _) => self.fail("httpcodec/request/panic", format!("parser panicked on {:?}: {}", path, panic_message(&e)), d),
            (Ok(Ok(got)), Some(exp)) => {
                if got != *exp {
                    self.fail(&format!("httpcodec/request/{}", label), format!("{}: parsed {:?}, expected {:?} for path {:?}", label, got, exp, path), d);
                }
                self.kinds.insert("path-accept");
            }
            (Ok(Err(e)), Some(exp)) => self.fail(&format!("httpcodec/request/{}", label), format!("{}: well-formed path rejected ({}): {:?}; expected {:?}", label, e, path, exp), d),
            (Ok(Ok(got)), None) => self.fail(&format!("httpcodec/request/{}", label), format!("{}: path must be rejected but parsed as {:?}: {:?}", label, got, path), d),
            (Ok(Err(_)), None) => {
                self.kinds.insert("path-reject");
            }
        }
    }

    fn reply(&mut self, r: &Response, exp: &B, label: &'static str) {
        self.evals += 1;
        let mut out = Vec::new();
        let n = r.write_bytes(&mut out).unwrap();
        let exp_bytes = exp.to_bytes();
        self.distinct.insert(fp64(&exp_bytes));
        let d = json!({"kind": "reply", "label": label, "expected_hex": hex::encode(&exp_bytes)});
        if n != out.len() {
            self.fail("httpcodec/reply/byte-count", format!("write_bytes returned {} but wrote {} bytes", n, out.len()), d.clone());
        }
        if out != exp_bytes {
            self.fail(
                "httpcodec/reply/bytes",
                format!("{}: reply bytes differ from the independent encoder: got {:?} expected {:?}", label, String::from_utf8_lossy(&out[..out.len().min(200)]), String::from_utf8_lossy(&exp_bytes[..exp_bytes.len().min(200)])),
                d.clone(),
            );
        }
        match bencode::decode(&out) {
            Ok(v) if v == *exp => {}
            Ok(v) => self.fail("httpcodec/reply/value", format!("{}: reply decodes to {:?}, expected {:?}", label, v, exp), d.clone()),
            Err(e) => self.fail("httpcodec/reply/not-canonical", format!("{}: reply is not canonical bencode: {}", label, e), d.clone()),
        }
        // parse back with the library, compare field by field
        let back = std::panic::catch_unwind(|| Response::parse_bytes(&out));
        match back {
            Err(e) => self.fail("httpcodec/reply/panic", format!("Response::parse_bytes panicked: {}", panic_message(&e)), d),
            Ok(Err(e)) => self.fail("httpcodec/reply/parse-back", format!("{}: reply written by the library does not parse back: {}", label, e), d),
            Ok(Ok(b)) => {
                if !same_response(r, &b) {
                    self.fail("httpcodec/reply/parse-back", format!("{}: reply parses back to a different value: {:?} vs {:?}", label, short(&format!("{:?}", b)), short(&format!("{:?}", r))), d);
                }
                self.kinds.insert(label);
            }
        }
    }
}

fn short(s: &str) -> String {
    if s.len() > 300 {
        format!("{}…", &s[..300])
    } else {
        s.to_string()
    }
}

fn same_response(a: &Response, b: &Response) -> bool {
    match (a, b) {
        (Response::Announce(x), Response::Announce(y)) => {
            x.announce_interval == y.announce_interval && x.complete == y.complete && x.incomplete == y.incomplete && x.peers.0 == y.peers.0 && x.peers6.0 == y.peers6.0 && x.warning_message == y.warning_message
        }
        (Response::Scrape(x), Response::Scrape(y)) => {
            x.files.len() == y.files.len() && x.files.iter().zip(y.files.iter()).all(|((h1, s1), (h2, s2))| h1 == h2 && s1.complete == s2.complete && s1.incomplete == s2.incomplete && s1.downloaded == s2.downloaded)
        }
        (Response::Failure(x), Response::Failure(y)) => x.failure_reason == y.failure_reason,
        _ => false,
    }
}

fn announce_b(r: &AnnounceResponse) -> B {
    let mut p = Vec::new();
    for x in &r.peers.0 {
        p.extend_from_slice(&x.ip_address.octets());
        p.extend_from_slice(&x.port.to_be_bytes());
    }
    let mut p6 = Vec::new();
    for x in &r.peers6.0 {
        p6.extend_from_slice(&x.ip_address.octets());
        p6.extend_from_slice(&x.port.to_be_bytes());
    }
    let mut items = vec![
        ("complete", B::Int(r.complete as i128)),
        ("incomplete", B::Int(r.incomplete as i128)),
        ("interval", B::Int(r.announce_interval as i128)),
        ("peers", B::Bytes(p)),
        ("peers6", B::Bytes(p6)),
    ];
    if let Some(w) = &r.warning_message {
        items.push(("warning message", B::Bytes(w.as_bytes().to_vec())));
    }
    B::dict(items)
}

fn scrape_b(files: &BTreeMap<[u8; 20], (usize, usize)>) -> B {
    let mut d = BTreeMap::new();
    for (h, (c, i)) in files {
        d.insert(h.to_vec(), B::dict(vec![("complete", B::Int(*c as i128)), ("downloaded", B::Int(0)), ("incomplete", B::Int(*i as i128))]));
    }
    B::dict(vec![("files", B::Dict(d))])
}

fn base_announce() -> AnnounceRequest {
    AnnounceRequest {
        info_hash: InfoHash(core::array::from_fn(|i| (i * 13 + 1) as u8)),
        peer_id: PeerId(*b"-TR2940-abcdefghijkl"),
        port: 6881,
        bytes_uploaded: 11,
        bytes_downloaded: 22,
        bytes_left: 33,
        event: AnnounceEvent::Started,
        numwant: Some(50),
        key: Some("k1".into()),
    }
}

pub fn main(args: &Args) -> ! {
    let mut run = Run::new(args, "exploration");
    run.set("rule", "requests: events x numwant x key product, numeric and port extremes, every byte value at every identifier position, written by the library and parsed back; hand-built query strings: all permutations of 5 parameters (thorough: of all 9), rotations, unknown keys at every position, identifiers in lower / upper hex and raw, identifier strings of length 0..=40 and out-of-range characters; replies: announce with 0..=60 peers per family, counts {0,1,max}, warnings, scrape with 0..=40 entries, failures, all compared byte for byte with an independent canonical bencode encoder, decoded with a strict decoder and parsed back. distinct = distinct byte strings; every case is compared against an independent oracle");
    run.assume("the 'key' parameter is capped at 100 encoded bytes by the parser: keys beyond that are expected to be rejected, not to round-trip");
    run.assume("malformed percent escapes inside identifiers are not judged (the property states only the 20-byte rule)");

    if let Some(p) = &args.replay {
        let r = load_replay(p);
        let c = &r["detail"]["case"];
        let mut ctx = Ctx { run: &mut run, evals: 0, distinct: Default::default(), kinds: Default::default() };
        match c["kind"].as_str() {
            Some("path") => {
                let path = c["path"].as_str().unwrap_or("").to_string();
                let res = std::panic::catch_unwind(|| Request::parse_http_get_path(&path));
                ctx.fail("httpcodec/replay-info", format!("replay of path {:?} gives {:?} (label {})", path, res.map(|r| r.map_err(|e| e.to_string())), c["label"]), c.clone());
            }
            Some("request-bytes") => {
                let b = hex::decode(c["bytes"].as_str().unwrap_or("")).unwrap_or_default();
                let res = std::panic::catch_unwind(|| Request::parse_bytes(&b));
                ctx.fail("httpcodec/replay-info", format!("replay gives {:?}", res.map(|r| r.map_err(|e| e.to_string()))), c.clone());
            }
            _ => machinery_failure("replies are regenerated by the full run; use ./check C14"),
        }
        run.set("evaluations", 1);
        run.set("distinct_nontrivial", 2);
        run.finish();
    }

    let mut ctx = Ctx { run: &mut run, evals: 0, distinct: Default::default(), kinds: Default::default() };
    let events = [AnnounceEvent::Started, AnnounceEvent::Stopped, AnnounceEvent::Completed, AnnounceEvent::Empty];
    let numwants = [None, Some(0usize), Some(1), Some(usize::MAX)];
    let key30: String = "abcdefghijklmnopqrstuvwxyz0123".into();
    let key100enc: String = "a".repeat(100);
    let key_enc_100: String = format!("{}{}", "=".repeat(33), "a"); // 33*3 + 1 = 100 encoded bytes
    let keys: Vec<Option<String>> = vec![None, Some("".into()), Some("a".into()), Some(key30), Some("=&%+ /?#".into()), Some("héllo✓𝕊".into()), Some(key100enc), Some(key_enc_100)];
    let nums = [0usize, 1, usize::MAX];
    let ports = [0u16, 1, 65535];

    // ---- library-written requests parse back equal
    for ev in events {
        for nw in numwants {
            for k in &keys {
                let r = AnnounceRequest { event: ev, numwant: nw, key: k.as_ref().map(|s| s.as_str().into()), ..base_announce() };
                ctx.roundtrip_request(&Request::Announce(r));
            }
        }
    }
    for u in nums {
        for d in nums {
            for l in nums {
                for p in ports {
                    let r = AnnounceRequest { bytes_uploaded: u, bytes_downloaded: d, bytes_left: l, port: p, ..base_announce() };
                    ctx.roundtrip_request(&Request::Announce(r));
                }
            }
        }
    }
    for pos in 0..20 {
        for val in 0..=255u8 {
            let mut ih = base_announce().info_hash.0;
            ih[pos] = val;
            let mut pid = base_announce().peer_id.0;
            pid[19 - pos] = val;
            ctx.roundtrip_request(&Request::Announce(AnnounceRequest { info_hash: InfoHash(ih), peer_id: PeerId(pid), ..base_announce() }));
        }
    }
    for val in 0..=255u8 {
        ctx.roundtrip_request(&Request::Announce(AnnounceRequest { info_hash: InfoHash([val; 20]), peer_id: PeerId([255 - val; 20]), ..base_announce() }));
        ctx.roundtrip_request(&Request::Scrape(ScrapeRequest { info_hashes: vec![InfoHash([val; 20])] }));
    }
    for n in 1..=30usize {
        let hs: Vec<InfoHash> = (0..n).map(|i| InfoHash(core::array::from_fn(|j| (i * 7 + j * 3) as u8))).collect();
        ctx.roundtrip_request(&Request::Scrape(ScrapeRequest { info_hashes: hs }));
    }
    // key of 101 encoded bytes: beyond the documented cap, must not be silently altered (reject, or equal)
    {
        let r = AnnounceRequest { key: Some("a".repeat(101).as_str().into()), ..base_announce() };
        let mut out = Vec::new();
        Request::Announce(r.clone()).write(&mut out, b"").unwrap();
        ctx.evals += 1;
        match Request::parse_bytes(&out) {
            Ok(Some(Request::Announce(b))) if b != r => ctx.fail("httpcodec/request/key-altered", "a 101-byte key was accepted but altered".into(), json!({"kind":"request-bytes","bytes":hex::encode(&out)})),
            _ => {}
        }
    }

    // ---- hand-built query strings
    let b = base_announce();
    let exp = Request::Announce(AnnounceRequest { key: None, ..b.clone() });
    let ih = enc_id(&b.info_hash.0, 0);
    let pid = enc_id(&b.peer_id.0, 0);
    let perm_params: Vec<String> = vec![format!("info_hash={}", ih), "port=6881".into(), "left=33".into(), "event=started".into(), "numwant=50".into()];
    let fixed: Vec<String> = vec![format!("peer_id={}", pid), "uploaded=11".into(), "downloaded=22".into(), "compact=1".into()];
    // all 120 permutations of the five, rest fixed behind / in front
    let mut idx: Vec<usize> = (0..5).collect();
    let mut perms: Vec<Vec<usize>> = Vec::new();
    fn heap(k: usize, a: &mut Vec<usize>, out: &mut Vec<Vec<usize>>) {
        if k == 1 {
            out.push(a.clone());
            return;
        }
        heap(k - 1, a, out);
        for i in 0..k - 1 {
            if k % 2 == 0 {
                a.swap(i, k - 1);
            } else {
                a.swap(0, k - 1);
            }
            heap(k - 1, a, out);
        }
    }
    heap(5, &mut idx, &mut perms);
    for (n, p) in perms.iter().enumerate() {
        let mut parts: Vec<String> = p.iter().map(|i| perm_params[*i].clone()).collect();
        if n % 2 == 0 {
            parts.extend(fixed.clone());
        } else {
            let mut f = fixed.clone();
            f.extend(parts);
            parts = f;
        }
        ctx.path(&format!("/announce?{}", parts.join("&")), Some(&exp), "parameter-order");
    }
    let all: Vec<String> = perm_params.iter().chain(fixed.iter()).cloned().collect();
    if args.tier.thorough() {
        // every order of all nine parameters (362880 query strings)
        let mut idx9: Vec<usize> = (0..all.len()).collect();
        let mut perms9: Vec<Vec<usize>> = Vec::new();
        heap(all.len(), &mut idx9, &mut perms9);
        for p in perms9.iter() {
            let parts: Vec<&str> = p.iter().map(|i| all[*i].as_str()).collect();
            ctx.path(&format!("/announce?{}", parts.join("&")), Some(&exp), "parameter-order");
        }
    }
    for rot in 0..all.len() {
        let mut parts = all.clone();
        parts.rotate_left(rot);
        ctx.path(&format!("/announce?{}", parts.join("&")), Some(&exp), "parameter-order");
        // unknown keys interleaved at every position
        for unk in ["supportcrypto=1", "no_peer_id=1", "x=", "trackerid=abc%20def", "ip=1.2.3.4"] {
            let mut q = all.clone();
            q.insert(rot, unk.to_string());
            ctx.path(&format!("/announce?{}", q.join("&")), Some(&exp), "unknown-key-ignored");
        }
    }
    // event=empty, no event
    {
        let mut q: Vec<String> = all.iter().filter(|p| !p.starts_with("event=")).cloned().collect();
        let e = Request::Announce(AnnounceRequest { key: None, event: AnnounceEvent::Empty, ..b.clone() });
        ctx.path(&format!("/announce?{}", q.join("&")), Some(&e), "event-absent");
        q.push("event=empty".into());
        ctx.path(&format!("/announce?{}", q.join("&")), Some(&e), "event-empty");
        for (s, ev) in [("started", AnnounceEvent::Started), ("stopped", AnnounceEvent::Stopped), ("completed", AnnounceEvent::Completed)] {
            let mut q2: Vec<String> = all.iter().filter(|p| !p.starts_with("event=")).cloned().collect();
            q2.insert(2, format!("event={}", s));
            ctx.path(&format!("/announce?{}", q2.join("&")), Some(&Request::Announce(AnnounceRequest { key: None, event: ev, ..b.clone() })), "event-value");
        }
    }
    // identifiers: every byte value in lower hex, upper hex, raw; in announce and scrape
    for val in 0..=255u8 {
        for mode in 0..3u8 {
            let mut id = b.info_hash.0;
            id[(val as usize) % 20] = val;
            id[(val as usize + 7) % 20] = val.wrapping_add(1);
            let enc = enc_id(&id, mode);
            let q: Vec<String> = all.iter().map(|p| if p.starts_with("info_hash=") { format!("info_hash={}", enc) } else { p.clone() }).collect();
            ctx.path(&format!("/announce?{}", q.join("&")), Some(&Request::Announce(AnnounceRequest { key: None, info_hash: InfoHash(id), ..b.clone() })), "identifier-decoding");
            ctx.path(&format!("/scrape?info_hash={}&info_hash={}", enc, ih), Some(&Request::Scrape(ScrapeRequest { info_hashes: vec![InfoHash(id), b.info_hash] })), "identifier-decoding");
        }
    }
    // identifier strings of every length 0..=40 over a small character set; out-of-range characters
    for len in 0..=40usize {
        for (ci, c) in ['a', 'é', '%'].iter().enumerate() {
            let (s, bytes): (String, Vec<u8>) = match c {
                '%' => ((0..len).map(|i| format!("%{:02X}", (i * 9 + 3) as u8)).collect(), (0..len).map(|i| (i * 9 + 3) as u8).collect()),
                c => (std::iter::repeat(*c).take(len).collect(), std::iter::repeat(*c as u32 as u8).take(len).collect()),
            };
            let exp_scrape = if len == 20 {
                let mut a = [0u8; 20];
                a.copy_from_slice(&bytes);
                Some(Request::Scrape(ScrapeRequest { info_hashes: vec![InfoHash(a)] }))
            } else {
                None
            };
            // sanity of the oracle against the independent decoder
            if ref_urldecode(&s).ok().flatten().is_some() != exp_scrape.is_some() {
                machinery_failure("oracle disagreement in identifier length sweep");
            }
            ctx.path(&format!("/scrape?info_hash={}", s), exp_scrape.as_ref(), if len == 20 { "identifier-20-accepted" } else { "identifier-length-rejected" });
            let _ = ci;
        }
    }
    for bad in ['Ā', 'ÿ', '𝕊', '€'] {
        for pos in [0usize, 10, 19] {
            let mut cs: Vec<char> = std::iter::repeat('a').take(20).collect();
            cs[pos] = bad;
            let s: String = cs.iter().collect();
            if bad as u32 <= 255 {
                let mut a = [b'a'; 20];
                a[pos] = bad as u32 as u8;
                ctx.path(&format!("/scrape?info_hash={}", s), Some(&Request::Scrape(ScrapeRequest { info_hashes: vec![InfoHash(a)] })), "identifier-latin1-accepted");
            } else {
                ctx.path(&format!("/scrape?info_hash={}", s), None, "identifier-out-of-range-rejected");
            }
        }
    }
    // wrong location / no query string
    for p in ["/announce", "/scrape", "/", "/stats?info_hash=x", "/announce/?x=1", "/scrape?", "/scrape?x=1"] {
        ctx.path(p, None, "not-a-request");
    }

    // ---- replies
    // counts are peer counts: bounded by memory, far below 2^63 (serde_bencode integers are i64)
    let counts = [0usize, 1, i64::MAX as usize];
    for n4 in 0..=60usize {
        for n6 in [0usize, 1, 2, n4] {
            let peers: Vec<ResponsePeer<Ipv4Addr>> = (0..n4).map(|i| ResponsePeer { ip_address: Ipv4Addr::new(i as u8, (i * 3) as u8, 255 - i as u8, b'e' + i as u8), port: [0u16, 1, 255, 256, 65535, b':' as u16][i % 6] }).collect();
            let peers6: Vec<ResponsePeer<Ipv6Addr>> = (0..n6).map(|i| ResponsePeer { ip_address: Ipv6Addr::new(0x2001, 0xdb8, i as u16, 0, 0xffff, 0x6565, 0x3a3a, (i * 257) as u16), port: [65535u16, 1, 6881][i % 3] }).collect();
            let r = AnnounceResponse {
                announce_interval: counts[(n4 + 1) % 3],
                complete: counts[n4 % 3],
                incomplete: counts[(n4 + 2) % 3],
                peers: ResponsePeerListV4(peers),
                peers6: ResponsePeerListV6(peers6),
                warning_message: match n4 % 4 {
                    0 => None,
                    1 => Some(String::new()),
                    2 => Some("slow down".into()),
                    _ => Some("wärning ✓ e:1:d".into()),
                },
            };
            let exp = announce_b(&r);
            ctx.reply(&Response::Announce(r), &exp, "announce-reply");
        }
    }
    for n in 0..=40usize {
        let mut files = BTreeMap::new();
        let mut expf = BTreeMap::new();
        for i in 0..n {
            // hashes that differ in the first byte only (sort order), contain 'e', ':', digits
            let mut h = [b'e'; 20];
            h[0] = (255 - i * 6) as u8;
            h[1] = b':';
            h[2] = b'0' + (i % 10) as u8;
            if i % 3 == 0 {
                h[19] = i as u8;
            }
            let (c, inc) = (counts[i % 3], counts[(i + 1) % 3]);
            files.insert(InfoHash(h), ScrapeStatistics { complete: c, incomplete: inc, downloaded: 0 });
            expf.insert(h, (c, inc));
        }
        ctx.reply(&Response::Scrape(ScrapeResponse { files }), &scrape_b(&expf), "scrape-reply");
    }
    for msg in ["", "a", "Info hash not allowed", "e", "i0e", "3:abc", "fäilure ✓ 𝕊", "with\r\nnewline\0nul"] {
        ctx.reply(&Response::Failure(FailureResponse::new(msg.to_string())), &B::dict(vec![("failure reason", B::Bytes(msg.as_bytes().to_vec()))]), "failure-reply");
    }

    let (evals, distinct, kinds) = (ctx.evals, ctx.distinct.len() as u64, ctx.kinds.clone());
    run.set("evaluations", evals);
    run.set("distinct_nontrivial", distinct);
    run.set("outcome_kinds", json!(kinds));
    run.set("exhaustive", true);
    run.sample(json!({"path": format!("/announce?{}", all.join("&"))}));
    run.sample(json!({"announce_reply": String::from_utf8_lossy(&announce_b(&AnnounceResponse { announce_interval: 1800, complete: 1, incomplete: 2, peers: ResponsePeerListV4(vec![]), peers6: ResponsePeerListV6(vec![]), warning_message: None }).to_bytes())}));
    if kinds.len() < 6 && run.num_violation_signatures() == 0 {
        machinery_failure(&format!("vacuous: outcome kinds {:?}", kinds));
    }
    run.finish();
}
