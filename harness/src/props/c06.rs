//! C06 — UDP request/reply contract: one reply, to the sender, no amplification
//! (exhaustive over a datagram alphabet through real socket workers on loopback, mio and io_uring).

use std::collections::{BTreeMap, HashMap, HashSet};
use std::net::{IpAddr, Ipv4Addr, Ipv6Addr, SocketAddr, UdpSocket};
use std::time::{Duration, Instant};

use aquatic_common::access_list::{update_access_list, AccessListMode};
use aquatic_common::{CanonicalSocketAddr, SecondsSinceServerStart, ValidUntil};
use aquatic_udp::config::Config;
use aquatic_udp_protocol::{AnnounceEvent, AnnounceRequest, ConnectionId, InfoHash, NumberOfBytes, NumberOfPeers, PeerId, PeerKey, Port, TransactionId};
use serde_json::json;

use crate::common::*;
use crate::netmc::{udp_client, UdpTracker};
use crate::props::c13::{ref_decode_request, ref_decode_response, ref_encode_request, RefAnnounce, RefRequest, RefResponse};

const N_SCRAPE_TORRENTS: usize = 74;

fn scrape_hash(i: usize) -> [u8; 20] {
    let mut h = [0x5cu8; 20];
    h[0] = (i * 3) as u8;
    h[1] = i as u8;
    h
}

fn announce_hash(i: u8) -> [u8; 20] {
    let mut h = [0xa7u8; 20];
    h[0] = i;
    h
}

struct Client {
    sock: UdpSocket,
    addr: SocketAddr,
    v4: bool,
}

#[derive(Clone)]
struct Case {
    bytes: Vec<u8>,
    client: usize,
    label: String,
}

fn preload(t: &UdpTracker) {
    // torrent i gets i+1 seeders in both families, so that scrape order is observable
    let (tx, _rx) = crossbeam_channel::unbounded();
    let mut rng = <rand::rngs::SmallRng as rand::SeedableRng>::seed_from_u64(1);
    let vu = ValidUntil::new_with_now(SecondsSinceServerStart::new_raw(0), 100_000);
    for i in 0..N_SCRAPE_TORRENTS {
        for s in 0..=i {
            for v4 in [true, false] {
                let ip: IpAddr = if v4 { IpAddr::V4(Ipv4Addr::new(10, 9, (s / 200) as u8, (s % 200) as u8 + 1)) } else { IpAddr::V6(Ipv6Addr::new(0xfd00, 9, 0, 0, 0, 0, 0, s as u16 + 1)) };
                let req = AnnounceRequest {
                    connection_id: ConnectionId::new(0),
                    action_placeholder: Default::default(),
                    transaction_id: TransactionId::new(0),
                    info_hash: InfoHash(scrape_hash(i)),
                    peer_id: PeerId([1; 20]),
                    bytes_downloaded: NumberOfBytes::new(0),
                    bytes_left: NumberOfBytes::new(0),
                    bytes_uploaded: NumberOfBytes::new(0),
                    event: AnnounceEvent::Started.into(),
                    ip_address: aquatic_udp_protocol::Ipv4AddrBytes([0; 4]),
                    key: PeerKey::new(0),
                    peers_wanted: NumberOfPeers::new(0),
                    port: Port::new(std::num::NonZeroU16::new(1000).unwrap()),
                };
                t.state.torrent_maps.announce(&t.config, &tx, &mut rng, &req, CanonicalSocketAddr::new(SocketAddr::new(ip, 1)), vu);
            }
        }
    }
}

fn dump_fp(t: &UdpTracker) -> u64 {
    let d = t.state.torrent_maps.verif_dump();
    fp64(&(format!("{:?}", d.ipv4), format!("{:?}", d.ipv6)))
}

struct Runner<'a> {
    t: &'a UdpTracker,
    clients: Vec<Client>,
    next_tx: i32,
    fence_tx: i32,
    backend: String,
}

#[derive(Debug, Clone)]
struct Reply {
    client: usize,
    bytes: Vec<u8>,
}

impl<'a> Runner<'a> {
    fn mint(&self, client: usize, at: u32) -> i64 {
        let mut v = self.t.validator.clone();
        v.verif_set_seconds_since_start(at);
        v.create_connection_id(CanonicalSocketAddr::new(self.clients[client].addr)).0.get()
    }

    fn cid_valid(&self, client: usize, cid: i64) -> bool {
        let mut v = self.t.validator.clone();
        v.update_elapsed();
        v.connection_id_valid(CanonicalSocketAddr::new(self.clients[client].addr), ConnectionId::new(cid))
    }

    /// Send the cases (in batches, each followed by a fence connect on the same socket) and collect every reply
    fn send_all(&mut self, cases: &[Case]) -> Vec<Reply> {
        let mut replies = Vec::new();
        let mut by_client: BTreeMap<usize, Vec<&Case>> = BTreeMap::new();
        for c in cases {
            by_client.entry(c.client).or_default().push(c);
        }
        for (ci, cs) in by_client {
            let dst = self.t.dst(self.clients[ci].v4);
            for batch in cs.chunks(48) {
                for c in batch {
                    self.clients[ci].sock.send_to(&c.bytes, dst).unwrap_or_else(|e| machinery_failure(&format!("send failed: {}", e)));
                }
                // fence: a connect request on the same socket is always answered, after everything before it
                self.fence_tx -= 1;
                let ftx = self.fence_tx;
                let fence = ref_encode_request(&RefRequest::Connect { transaction_id: ftx });
                let mut fence_seen = false;
                let mut attempts = 0;
                while !fence_seen {
                    self.clients[ci].sock.send_to(&fence, dst).unwrap();
                    let t0 = Instant::now();
                    while t0.elapsed() < Duration::from_secs(3) {
                        let mut buf = [0u8; 9000];
                        match self.clients[ci].sock.recv_from(&mut buf) {
                            Ok((n, from)) => {
                                if from.port() != self.t.port {
                                    continue;
                                }
                                let b = buf[..n].to_vec();
                                if n == 16 && b[0..4] == [0, 0, 0, 0] && i32::from_be_bytes([b[4], b[5], b[6], b[7]]) == ftx {
                                    fence_seen = true;
                                    break;
                                }
                                replies.push(Reply { client: ci, bytes: b });
                            }
                            Err(_) => {}
                        }
                    }
                    attempts += 1;
                    if !fence_seen && attempts >= 3 {
                        machinery_failure(&format!("fence connect not answered on client {} ({} backend)", ci, self.backend));
                    }
                }
            }
        }
        replies
    }

    fn drain_all(&mut self, ms: u64) -> Vec<Reply> {
        let mut out = Vec::new();
        let t0 = Instant::now();
        while t0.elapsed() < Duration::from_millis(ms) {
            for (ci, c) in self.clients.iter().enumerate() {
                let mut buf = [0u8; 9000];
                if let Ok((n, from)) = c.sock.recv_from(&mut buf) {
                    if from.port() == self.t.port {
                        out.push(Reply { client: ci, bytes: buf[..n].to_vec() });
                    }
                }
            }
        }
        out
    }
}

fn size_class(len: usize) -> &'static str {
    if len <= 1472 {
        "fits-unfragmented-packet"
    } else if len <= 2000 {
        "up-to-2000-bytes"
    } else {
        "over-2000-bytes"
    }
}

fn with_cid(mut b: Vec<u8>, cid: i64) -> Vec<u8> {
    if b.len() >= 8 {
        b[..8].copy_from_slice(&cid.to_be_bytes());
    }
    b
}

fn set_tx(b: &mut [u8], tx: i32) {
    if b.len() >= 16 {
        b[12..16].copy_from_slice(&tx.to_be_bytes());
    }
}

/// the datagram alphabet (without connection ids / transaction ids, which are filled in per case)
fn base_datagrams() -> Vec<(String, Vec<u8>)> {
    let mut v: Vec<(String, Vec<u8>)> = Vec::new();
    let connect = ref_encode_request(&RefRequest::Connect { transaction_id: 0 });
    v.push(("connect".into(), connect.clone()));
    for ext in [1usize, 48] {
        let mut c = connect.clone();
        c.extend(std::iter::repeat(0x11).take(ext));
        v.push((format!("connect+{}", ext), c));
    }
    let mut wrong = connect.clone();
    wrong[3] ^= 0x40;
    v.push(("connect-wrong-protocol-id".into(), wrong));
    let ann = |event: i32, numwant: i32, port: u16, h: u8| RefAnnounce {
        connection_id: 0,
        transaction_id: 0,
        info_hash: announce_hash(h),
        peer_id: [0x42; 20],
        downloaded: 1,
        left: if event == 1 { 0 } else { 7 },
        uploaded: 2,
        event,
        ip: [9, 9, 9, 9],
        key: 5,
        num_want: numwant,
        port,
    };
    for ev in 0..4 {
        v.push((format!("announce-event{}", ev), ref_encode_request(&RefRequest::Announce(ann(ev, 10, 7000 + ev as u16, 1)))));
    }
    for nw in [i32::MIN, -1, 0, i32::MAX] {
        v.push((format!("announce-numwant{}", nw), ref_encode_request(&RefRequest::Announce(ann(2, nw, 7100, 2)))));
    }
    v.push(("announce-port0".into(), ref_encode_request(&RefRequest::Announce(ann(2, 1, 0, 3)))));
    for ext in [1usize, 2, 100, 300, 382, 383, 400, 1300, 2000, 5000] {
        let mut a = ref_encode_request(&RefRequest::Announce(ann(2, 1, 7200, 4)));
        a.extend(std::iter::repeat(0x22).take(ext));
        v.push((format!("announce+{}ext", ext), a));
    }
    let a98 = ref_encode_request(&RefRequest::Announce(ann(2, 1, 7300, 5)));
    v.push(("announce-97-bytes".into(), a98[..97].to_vec()));
    let mut ev4 = a98.clone();
    ev4[80..84].copy_from_slice(&4i32.to_be_bytes());
    v.push(("announce-unknown-event".into(), ev4));
    for n in [1usize, 2, 22, 23, 24, 25, 70, 71, 74, 100, 255, 256, 257, 300, 326, 408] {
        v.push((format!("scrape-{}", n), ref_encode_request(&RefRequest::Scrape { connection_id: 0, transaction_id: 0, info_hashes: (0..n).map(|i| scrape_hash(i % N_SCRAPE_TORRENTS)).collect() })));
    }
    let s2 = ref_encode_request(&RefRequest::Scrape { connection_id: 0, transaction_id: 0, info_hashes: vec![scrape_hash(3), scrape_hash(1)] });
    v.push(("scrape-0-hashes".into(), s2[..16].to_vec()));
    for tr in [19usize, 21, 39] {
        v.push((format!("scrape-trailing-{}", tr), s2[..16 + tr].to_vec()));
    }
    let mut unk = a98.clone();
    unk[8..12].copy_from_slice(&9i32.to_be_bytes());
    v.push(("unknown-action".into(), unk));
    // every truncation length of each valid kind
    for n in 0..a98.len() {
        v.push((format!("announce-truncated-{}", n), a98[..n].to_vec()));
    }
    for n in 0..s2.len() {
        v.push((format!("scrape-truncated-{}", n), s2[..n].to_vec()));
    }
    v
}

fn bitflips() -> Vec<(String, Vec<u8>)> {
    let mut v = Vec::new();
    let a = ref_encode_request(&RefRequest::Announce(RefAnnounce { connection_id: 0, transaction_id: 0, info_hash: announce_hash(9), peer_id: [0x43; 20], downloaded: 1, left: 1, uploaded: 1, event: 2, ip: [0; 4], key: 1, num_want: 3, port: 7400 }));
    let s = ref_encode_request(&RefRequest::Scrape { connection_id: 0, transaction_id: 0, info_hashes: vec![scrape_hash(5), scrape_hash(6)] });
    for (name, base) in [("announce", a), ("scrape", s)] {
        for bit in 0..base.len() * 8 {
            if (12..16).contains(&(bit / 8)) {
                continue; // transaction id bits: only echoed
            }
            v.push((format!("{}-bitflip-{}", name, bit), {
                let mut x = base.clone();
                x[bit / 8] ^= 1 << (bit % 8);
                x
            }));
        }
    }
    v
}

fn run_backend(run: &mut Run, uring: bool, workers: usize, stale: bool, thorough: bool, access: Option<AccessListMode>) -> (u64, u64) {
    let backend = format!("{}{}{}-w{}", if uring { "io_uring" } else { "mio" }, if stale { "-age0" } else { "" }, match access { Some(AccessListMode::Allow) => "-allow", Some(AccessListMode::Deny) => "-deny", _ => "" }, workers);
    let mut config = Config::default();
    config.network.use_io_uring = uring;
    config.protocol.max_scrape_torrents = 70;
    config.protocol.max_response_peers = 30;
    if stale {
        config.cleaning.max_connection_age = 0;
    }
    let max_scrape = config.protocol.max_scrape_torrents;
    // access list: announce hashes 1 and 4 are forbidden (deny: listed; allow: everything else the alphabet uses is listed)
    let listed: Vec<[u8; 20]> = match access {
        Some(AccessListMode::Deny) => vec![announce_hash(1), announce_hash(4)],
        Some(AccessListMode::Allow) => vec![announce_hash(2), announce_hash(3), announce_hash(5), announce_hash(9)],
        _ => vec![],
    };
    let forbidden = move |h: &[u8; 20]| match access {
        Some(AccessListMode::Deny) => listed.contains(h),
        Some(AccessListMode::Allow) => !listed.contains(h),
        _ => false,
    };
    let list_dir = tempfile::tempdir().unwrap();
    if let Some(mode) = access {
        let path = list_dir.path().join("list.txt");
        let lines: Vec<String> = match mode {
            AccessListMode::Deny => vec![hex::encode(announce_hash(1)), hex::encode(announce_hash(4))],
            _ => vec![hex::encode(announce_hash(2)), hex::encode(announce_hash(3)), hex::encode(announce_hash(5)), hex::encode(announce_hash(9))],
        };
        std::fs::write(&path, lines.join("\n") + "\n").unwrap();
        config.access_list.mode = mode;
        config.access_list.path = path;
    }
    let t = UdpTracker::start(config, workers);
    if access.is_some() {
        update_access_list(&t.config.access_list, &t.state.access_list).unwrap_or_else(|e| machinery_failure(&format!("access list not loaded: {:#}", e)));
    }
    preload(&t);
    let ips: Vec<IpAddr> = vec![IpAddr::V4(Ipv4Addr::new(127, 0, 0, 1)), IpAddr::V4(Ipv4Addr::new(127, 0, 0, 2)), IpAddr::V4(Ipv4Addr::new(127, 0, 0, 3)), IpAddr::V6(Ipv6Addr::LOCALHOST)];
    let clients: Vec<Client> = ips
        .iter()
        .map(|ip| {
            let sock = udp_client(*ip);
            let addr = sock.local_addr().unwrap();
            Client { sock, addr, v4: ip.is_ipv4() }
        })
        .collect();
    let mut r = Runner { t: &t, clients, next_tx: 0x1000_0000, fence_tx: -1000, backend: backend.clone() };

    // ---- build the cases: datagram x connection-id class x client
    let mut cases: Vec<Case> = Vec::new();
    let bases = base_datagrams();
    let flips = bitflips();
    let mut k = 0usize;
    for (label, b) in bases.iter() {
        for class in ["valid", "other-source", "far-future", "forged"] {
            // all clients for the structured part, one rotating client for truncations
            let clients: Vec<usize> = if label.contains("truncated") { vec![k % 4] } else { vec![0, 1, 3] };
            for ci in clients {
                k += 1;
                let cid = match class {
                    "valid" => r.mint(ci, 0),
                    "other-source" => r.mint((ci + 1) % 4, 0),
                    "far-future" => r.mint(ci, 100_000),
                    _ => 0x0123_4567_89ab_cdefu64 as i64 ^ (k as i64) << 7,
                };
                let mut bytes = if label.starts_with("connect") { b.clone() } else { with_cid(b.clone(), cid) };
                r.next_tx += 1;
                set_tx(&mut bytes, r.next_tx);
                cases.push(Case { bytes, client: ci, label: format!("{}/{}", label, class) });
            }
        }
    }
    if thorough || !stale {
        for (label, b) in flips.iter() {
            let ci = k % 4;
            k += 1;
            // flips are applied to a datagram that carries a valid id, so flips inside the id make it forged
            let cid = r.mint(ci, 0);
            let bit: usize = label.rsplit('-').next().unwrap().parse().unwrap();
            let mut bytes = b.clone();
            bytes[bit / 8] ^= 1 << (bit % 8); // undo, insert id, redo
            let mut bytes = with_cid(bytes, cid);
            bytes[bit / 8] ^= 1 << (bit % 8);
            r.next_tx += 1;
            set_tx(&mut bytes, r.next_tx);
            cases.push(Case { bytes, client: ci, label: format!("{}/valid-id-then-flip", label) });
        }
    }

    // ---- expectations from the independent decoder and the validator clone
    #[derive(Clone, Debug, PartialEq)]
    enum Exp {
        None,
        Connect,
        Announce,
        Scrape(Vec<(i32, i32, i32)>),
        AtMostError,
        /// exactly one error reply and no state (announce for a hash the access list forbids, with a valid connection id)
        Error,
    }
    let expectation = |r: &Runner, c: &Case| -> (Exp, bool) {
        let dec = ref_decode_request(&c.bytes, max_scrape);
        let cid_valid = c.bytes.len() >= 8 && r.cid_valid(c.client, i64::from_be_bytes(c.bytes[..8].try_into().unwrap()));
        let e = match dec {
            Some(RefRequest::Connect { .. }) => Exp::Connect,
            Some(RefRequest::Announce(a)) => {
                if cid_valid && forbidden(&a.info_hash) {
                    Exp::Error
                } else if cid_valid {
                    Exp::Announce
                } else {
                    Exp::None
                }
            }
            Some(RefRequest::Scrape { info_hashes, .. }) => {
                if cid_valid {
                    Exp::Scrape(info_hashes.iter().map(|h| (0..N_SCRAPE_TORRENTS).find(|i| scrape_hash(*i) == *h).map(|i| (i as i32 + 1, 0, 0)).unwrap_or((0, 0, 0))).collect())
                } else {
                    Exp::None
                }
            }
            None => {
                if cid_valid && c.bytes.len() >= 16 {
                    Exp::AtMostError
                } else {
                    Exp::None
                }
            }
        };
        (e, cid_valid)
    };
    let exps: Vec<(Exp, bool)> = cases.iter().map(|c| expectation(&r, c)).collect();

    // ---- phase A: everything that must be rejected; swarm state must not change
    let idx_a: Vec<usize> = (0..cases.len()).filter(|i| matches!(exps[*i].0, Exp::None | Exp::AtMostError | Exp::Error)).collect();
    let idx_b: Vec<usize> = (0..cases.len()).filter(|i| !matches!(exps[*i].0, Exp::None | Exp::AtMostError | Exp::Error)).collect();
    let before = dump_fp(&t);
    let cases_a: Vec<Case> = idx_a.iter().map(|i| cases[*i].clone()).collect();
    let mut replies = r.send_all(&cases_a);
    replies.extend(r.drain_all(60));
    let after = dump_fp(&t);
    if before != after {
        run.violation(format!("udp/{}/rejected-datagram-changed-state", if uring { "io_uring" } else { "mio" }), format!("[{}] swarm state changed while only rejected datagrams were sent", backend), json!({"backend": backend}));
    }
    let cases_b: Vec<Case> = idx_b.iter().map(|i| cases[*i].clone()).collect();
    replies.extend(r.send_all(&cases_b));
    replies.extend(r.drain_all(200));

    // ---- attribute replies by transaction id
    let mut by_tx: HashMap<i32, Vec<&Reply>> = HashMap::new();
    let known_tx: HashSet<i32> = cases.iter().filter(|c| c.bytes.len() >= 16).map(|c| i32::from_be_bytes(c.bytes[12..16].try_into().unwrap())).collect();
    for rep in &replies {
        if rep.bytes.len() < 8 {
            run.violation(format!("udp/{}/short-reply", if uring { "io_uring" } else { "mio" }), format!("[{}] reply of {} bytes", backend, rep.bytes.len()), json!({"backend": backend, "reply": hex::encode(&rep.bytes)}));
            continue;
        }
        let tx = i32::from_be_bytes(rep.bytes[4..8].try_into().unwrap());
        if !known_tx.contains(&tx) {
            run.violation(format!("udp/{}/unattributed-reply", if uring { "io_uring" } else { "mio" }), format!("[{}] reply with a transaction id no request carried: {}", backend, hex::encode(&rep.bytes[..rep.bytes.len().min(40)])), json!({"backend": backend, "reply": hex::encode(&rep.bytes)}));
            continue;
        }
        by_tx.entry(tx).or_default().push(rep);
    }
    let be = if uring { "io_uring" } else { "mio" };
    let mut outcomes: HashSet<String> = HashSet::new();
    for (c, (e, cid_valid)) in cases.iter().zip(exps.iter()) {
        let tx = if c.bytes.len() >= 16 { Some(i32::from_be_bytes(c.bytes[12..16].try_into().unwrap())) } else { None };
        let reps: Vec<&Reply> = tx.and_then(|t| by_tx.get(&t).cloned()).unwrap_or_default();
        let detail = json!({"backend": backend, "label": c.label, "client": r.clients[c.client].addr.to_string(), "datagram": hex::encode(&c.bytes[..c.bytes.len().min(600)]), "replies": reps.iter().map(|x| hex::encode(&x.bytes[..x.bytes.len().min(64)])).collect::<Vec<_>>()});
        let kind = c.label.split('/').next().unwrap_or("").trim_end_matches(|ch: char| ch.is_ascii_digit() || ch == '-').to_string();
        if reps.len() > 1 {
            run.violation(format!("udp/{}/more-than-one-reply", be), format!("[{}] {} replies to one datagram ({})", backend, reps.len(), c.label), detail.clone());
        }
        for rep in &reps {
            if rep.client != c.client {
                run.violation(format!("udp/{}/reply-to-wrong-socket", be), format!("[{}] reply arrived at another socket than the sender's ({})", backend, c.label), detail.clone());
            }
            if !cid_valid && !(rep.bytes.len() == 16 && rep.bytes[..4] == [0, 0, 0, 0] && rep.bytes.len() <= c.bytes.len()) {
                run.violation(format!("udp/{}/reply-without-valid-id", be), format!("[{}] a datagram without a valid connection id obtained a reply other than a connect reply no larger than itself ({})", backend, c.label), detail.clone());
            }
        }
        let v4 = r.clients[c.client].v4;
        let parsed: Option<RefResponse> = reps.first().and_then(|x| ref_decode_response(&x.bytes, v4));
        match e {
            Exp::None => {
                if !reps.is_empty() {
                    run.violation(format!("udp/{}/unexpected-reply/{}", be, kind), format!("[{}] datagram that must be ignored was answered ({})", backend, c.label), detail.clone());
                }
                outcomes.insert(format!("{}:none", kind));
            }
            Exp::AtMostError => {
                if let Some(p) = &parsed {
                    if !matches!(p, RefResponse::Error { .. }) {
                        run.violation(format!("udp/{}/malformed-request-answered/{}", be, kind), format!("[{}] malformed request got a non-error reply ({})", backend, c.label), detail.clone());
                    }
                }
                outcomes.insert(format!("{}:error-or-none:{}", kind, reps.len()));
            }
            Exp::Error => {
                match &parsed {
                    Some(RefResponse::Error { .. }) if reps.len() == 1 => {}
                    // the same datagram sizes as the io_uring request-buffer finding: same signature family
                    _ if reps.is_empty() && c.bytes.len() >= 480 => run.violation(format!("udp/{}/no-reply-to-large-announce/{}", be, size_class(c.bytes.len())), format!("[{}] well-formed announce ({} bytes, hash forbidden by the access list) with a valid connection id not answered ({})", backend, c.bytes.len(), c.label), detail.clone()),
                    _ => run.violation(format!("udp/{}/forbidden-announce-not-refused", be), format!("[{}] announce for a hash the access list forbids, with a valid connection id, not answered by exactly one error reply ({}); replies: {}", backend, c.label, reps.len()), detail.clone()),
                }
                outcomes.insert(format!("{}:error", kind));
            }
            Exp::Connect => {
                match &parsed {
                    Some(RefResponse::Connect { connection_id, .. }) if reps.len() == 1 => {
                        if !stale && !r.cid_valid(c.client, *connection_id) {
                            run.violation(format!("udp/{}/connect-id-not-valid", be), format!("[{}] the connection id handed out is not valid for the source it was sent to ({})", backend, c.label), detail.clone());
                        }
                    }
                    _ => run.violation(format!("udp/{}/no-connect-reply", be), format!("[{}] well-formed connect request not answered by exactly one connect reply ({})", backend, c.label), detail.clone()),
                }
                outcomes.insert(format!("{}:connect", kind));
            }
            Exp::Announce => {
                match &parsed {
                    Some(RefResponse::Announce { .. }) if reps.len() == 1 => {}
                    _ => {
                        let big = c.bytes.len() >= 480;
                        run.violation(
                            if big { format!("udp/{}/no-reply-to-large-announce/{}", be, size_class(c.bytes.len())) } else { format!("udp/{}/no-announce-reply", be) },
                            format!("[{}] well-formed announce ({} bytes) with a valid connection id not answered by exactly one announce reply of the sender's family ({}); replies: {}", backend, c.bytes.len(), c.label, reps.len()),
                            detail.clone(),
                        );
                    }
                }
                outcomes.insert(format!("{}:announce", kind));
            }
            Exp::Scrape(stats) => {
                match &parsed {
                    Some(RefResponse::Scrape { stats: got, .. }) if reps.len() == 1 => {
                        if got != stats {
                            run.violation(format!("udp/{}/scrape-entries", be), format!("[{}] scrape reply does not list exactly the first max_scrape_torrents requested torrents in request order ({}): got {} entries {:?}.., expected {} entries {:?}..", backend, c.label, got.len(), &got[..got.len().min(4)], stats.len(), &stats[..stats.len().min(4)]), detail.clone());
                        }
                    }
                    _ => {
                        let big = c.bytes.len() > 468;
                        run.violation(
                            if big { format!("udp/{}/no-reply-to-large-scrape/{}", be, size_class(c.bytes.len())) } else { format!("udp/{}/no-scrape-reply", be) },
                            format!("[{}] well-formed scrape ({} bytes) with a valid connection id not answered by exactly one scrape reply ({}); replies: {}", backend, c.bytes.len(), c.label, reps.len()),
                            detail.clone(),
                        );
                    }
                }
                outcomes.insert(format!("{}:scrape", kind));
            }
        }
    }
    if run.want_sample() {
        run.sample(json!({"backend": backend, "datagram": cases[3].label, "hex": hex::encode(&cases[3].bytes)}));
    }
    eprintln!("[C06] {}: datagrams={} replies={} outcomes={} t={:.1}s", backend, cases.len(), replies.len(), outcomes.len(), run.elapsed());
    (cases.len() as u64, outcomes.len() as u64)
}

/// Datagrams from source port 0 through a raw IPPROTO_UDP socket; a second raw socket sees every UDP datagram the
/// host receives on loopback, so a reply towards port 0 would be observed. Returns None if raw sockets are unavailable.
fn port_zero_probe(uring: bool) -> Option<Result<u64, String>> {
    use std::os::fd::AsRawFd;
    let raw_tx = socket2::Socket::new(socket2::Domain::IPV4, socket2::Type::RAW, Some(socket2::Protocol::UDP)).ok()?;
    let raw_rx = socket2::Socket::new(socket2::Domain::IPV4, socket2::Type::RAW, Some(socket2::Protocol::UDP)).ok()?;
    raw_rx.set_read_timeout(Some(Duration::from_millis(50))).ok()?;
    let mut config = Config::default();
    config.network.use_io_uring = uring;
    let t = UdpTracker::start(config, 1);
    let dst: SocketAddr = SocketAddr::new(IpAddr::V4(Ipv4Addr::LOCALHOST), t.port);
    let before = dump_fp(&t);
    let mut v = t.validator.clone();
    v.verif_set_seconds_since_start(0);
    let cid = v.create_connection_id(CanonicalSocketAddr::new(SocketAddr::new(IpAddr::V4(Ipv4Addr::LOCALHOST), 0))).0.get();
    let payloads_for = |h: u8| -> Vec<Vec<u8>> {
        vec![
            ref_encode_request(&RefRequest::Connect { transaction_id: 0x7001 }),
            ref_encode_request(&RefRequest::Announce(RefAnnounce { connection_id: cid, transaction_id: 0x7002, info_hash: announce_hash(h), peer_id: [1; 20], downloaded: 0, left: 1, uploaded: 0, event: 2, ip: [0; 4], key: 0, num_want: 1, port: 4000 })),
            ref_encode_request(&RefRequest::Scrape { connection_id: cid, transaction_id: 0x7003, info_hashes: vec![scrape_hash(1)] }),
        ]
    };
    let mut sent = 0;
    for (src_port, expect_reply) in [(0u16, false), (40_123u16, true)] {
        let payloads = payloads_for(if src_port == 0 { 77 } else { 78 });
        if src_port != 0 {
            // before the positive control: the port-0 announce must not have created state
            std::thread::sleep(Duration::from_millis(100));
            if dump_fp(&t) != before {
                return Some(Err("an announce from source port 0 with a valid connection id changed the swarm state".into()));
            }
        }
        for p in &payloads {
            // UDP header: source port, destination port, length, checksum 0 (= none, legal for IPv4)
            let mut pkt = Vec::new();
            pkt.extend_from_slice(&src_port.to_be_bytes());
            pkt.extend_from_slice(&t.port.to_be_bytes());
            pkt.extend_from_slice(&((8 + p.len()) as u16).to_be_bytes());
            pkt.extend_from_slice(&[0, 0]);
            pkt.extend_from_slice(p);
            if raw_tx.send_to(&pkt, &dst.into()).is_err() {
                return None;
            }
            sent += 1;
            // sniff for 150 ms: any datagram from the tracker's port
            let t0 = Instant::now();
            let mut saw_reply = false;
            while t0.elapsed() < Duration::from_millis(150) {
                let mut buf = [std::mem::MaybeUninit::<u8>::uninit(); 2048];
                if let Ok(n) = raw_rx.recv(&mut buf) {
                    let b: Vec<u8> = buf[..n].iter().map(|x| unsafe { x.assume_init() }).collect();
                    // IPv4 header + UDP header
                    if b.len() >= 28 {
                        let ihl = ((b[0] & 0x0f) as usize) * 4;
                        if b.len() >= ihl + 8 {
                            let sp = u16::from_be_bytes([b[ihl], b[ihl + 1]]);
                            let dp = u16::from_be_bytes([b[ihl + 2], b[ihl + 3]]);
                            if sp == t.port && dp == src_port {
                                saw_reply = true;
                            }
                        }
                    }
                }
            }
            if saw_reply != expect_reply {
                if expect_reply {
                    // the positive control failed: sniffing does not work here
                    return None;
                }
                return Some(Err(format!("a datagram from source port 0 ({} bytes) was answered towards port 0", p.len())));
            }
        }
    }
    let _ = raw_rx.as_raw_fd();
    Some(Ok(sent))
}

pub fn main(args: &Args) -> ! {
    let mut run = Run::new(args, "exploration");
    run.set("rule", "datagram alphabet (connect shapes; announce x events / numwant extremes / port 0 / extension bytes / 97 bytes / unknown event; scrape x {1,2,22,23,24,25,70,71,74} hashes, 0 hashes, trailing bytes; unknown action; every truncation length; every single-bit flip of one announce and one scrape) x connection id {valid, valid for another source, far-future, forged, stale (tracker with max_connection_age 0)} x access list {off, deny, allow: two of the announce hashes forbidden} x sources 127.0.0.1/.2, ::1, sent to real socket workers (mio and io_uring, 1 and 2 workers); every reply attributed by transaction id; absence established by a fence connect on the same socket; expectation from the independent BEP 15 decoder and a clone of the validator. distinct_nontrivial = distinct (datagram kind, outcome) pairs");
    run.assume("thread schedule inside the socket workers is not controlled; datagrams are fenced per socket");
    run.assume("source port 0: injected through a raw IPPROTO_UDP socket and sniffed when raw sockets are available (see source_port_zero in the coverage), otherwise covered at parser / handler level by C12");
    let th = args.tier.thorough();
    if args.replay.is_some() {
        eprintln!("replay: re-running the full alphabet (a datagram's verdict depends only on the datagram and the backend)");
    }
    let mut evals = 0;
    let mut outcomes = 0;
    let mut configs: Vec<(bool, usize, bool, Option<AccessListMode>)> = vec![(false, 1, false, None), (true, 1, false, None), (false, 1, true, None), (false, 1, false, Some(AccessListMode::Deny)), (true, 1, false, Some(AccessListMode::Allow))];
    if th {
        configs.extend([(false, 2, false, None), (true, 2, false, None), (true, 1, true, None), (false, 1, false, Some(AccessListMode::Allow)), (true, 1, false, Some(AccessListMode::Deny))]);
    } else {
        configs.push((true, 2, false, None));
    }
    for (uring, workers, stale, access) in configs {
        let (e, o) = run_backend(&mut run, uring, workers, stale, th, access);
        evals += e;
        outcomes += o;
    }
    // source port 0
    let mut port0 = "not available (raw sockets); covered at parser / handler level by C12".to_string();
    for uring in [false, true] {
        match port_zero_probe(uring) {
            None => {}
            Some(Ok(n)) => {
                evals += n;
                port0 = "raw-socket injection with sniffed positive control".into();
            }
            Some(Err(e)) => run.violation(format!("udp/{}/reply-to-source-port-0", if uring { "io_uring" } else { "mio" }), e, json!({"backend": if uring { "io_uring" } else { "mio" }})),
        }
    }
    run.set("source_port_zero", port0);
    run.set("evaluations", evals);
    run.set("distinct_nontrivial", outcomes);
    run.set("exhaustive", true);
    run.finish();
}
