//! C01 — UDP swarm bookkeeping equals a reference tracker (seqmc).

use serde_json::json;

use crate::common::*;
use crate::seqmc::{self, Limits, Step};
use crate::udp_sys::*;

#[derive(Clone, Debug)]
pub struct Alphabet {
    pub name: &'static str,
    pub opts: WorldOpts,
    pub keys: u8,
    pub kinds: Vec<Kind>,
    pub pids: Option<u8>,
    pub ages: Vec<u32>,
    pub lags: Vec<u32>,
    pub numwants: Vec<i32>,
    pub scrapes: Vec<Vec<u8>>,
    pub clock_max: u32,
    pub reloads: Vec<u8>,
    pub clean: bool,
}

pub fn events(a: &Alphabet, clock: u32) -> Vec<Ev> {
    let mut evs = Vec::new();
    if clock < a.clock_max {
        evs.push(Ev::Tick);
    }
    if a.clean {
        evs.push(Ev::Clean);
    }
    for v4 in &a.opts.families {
        for s in &a.scrapes {
            evs.push(Ev::Scrape { v4: *v4, hs: s.clone() });
        }
    }
    for v4 in &a.opts.families {
        for h in &a.opts.hashes {
            for key in 0..a.keys {
                for kind in &a.kinds {
                    for age in &a.ages {
                        for lag in &a.lags {
                            if *lag > clock {
                                continue;
                            }
                            for nw in &a.numwants {
                                match a.pids {
                                    None => evs.push(Ev::Ann { v4: *v4, h: *h, key, kind: *kind, pid: key, age: *age, lag: *lag, numwant: *nw }),
                                    Some(n) => {
                                        for pid in 0..n {
                                            evs.push(Ev::Ann { v4: *v4, h: *h, key, kind: *kind, pid, age: *age, lag: *lag, numwant: *nw });
                                        }
                                    }
                                }
                            }
                        }
                    }
                }
            }
        }
    }
    for r in &a.reloads {
        evs.push(Ev::Reload(*r));
    }
    evs
}

thread_local! {
    static EXPORT_DIR: std::cell::RefCell<Option<tempfile::TempDir>> = const { std::cell::RefCell::new(None) };
}

pub fn thread_export_dir() -> std::path::PathBuf {
    EXPORT_DIR.with(|d| {
        let mut d = d.borrow_mut();
        if d.is_none() {
            let base = if std::path::Path::new("/dev/shm").is_dir() { "/dev/shm" } else { "/tmp" };
            *d = Some(tempfile::Builder::new().prefix("aqv-export-").tempdir_in(base).expect("tempdir"));
        }
        d.as_ref().unwrap().path().to_path_buf()
    })
}

pub fn fresh_world(a: &Alphabet) -> UdpWorld {
    let mut o = a.opts.clone();
    if o.export_dir.is_some() {
        o.export_dir = Some(thread_export_dir());
    }
    UdpWorld::new(o)
}

pub fn replay(a: &Alphabet, hist: &[Ev]) -> UdpWorld {
    let mut w = fresh_world(a);
    for e in hist {
        w.apply(e);
    }
    w
}

pub fn expand(a: &Alphabet, hist: &[Ev]) -> Vec<Step<Ev>> {
    let base = replay(a, hist);
    let evs = events(a, base.clock);
    drop(base);
    evs.into_iter()
        .map(|ev| {
            let r = std::panic::catch_unwind(std::panic::AssertUnwindSafe(|| {
                let mut w = replay(a, hist);
                let out = w.apply(&ev);
                let mut violations = out.violations;
                violations.extend(w.invariants());
                let key = w.key();
                let (pf, pv, pc) = w.probes();
                violations.extend(pv);
                (key, fp64(&(out.outcome, pf)), violations, out.compared + pc)
            }));
            match r {
                Ok((key, outcome, violations, compared)) => Step { event: ev, key: Some(key), outcome, violations, compared },
                Err(e) => Step {
                    event: ev,
                    key: None,
                    outcome: 0,
                    violations: vec![Violation { signature: "udp/panic".into(), what: format!("storage code panicked: {}", panic_message(&e)), detail: json!({}) }],
                    compared: 1,
                },
            }
        })
        .collect()
}

/// Run one BFS; fold results into the run. Returns the report.
pub fn run_bfs(run: &mut Run, a: &Alphabet, limits: &Limits, need_fixpoint: bool) {
    let init = replay(a, &[]).key();
    let rep = seqmc::bfs(init, limits, |h| expand(a, h));
    let prefix = format!("{}.", a.name);
    seqmc::report_to_cov(&rep, &prefix, &mut run.cov);
    run.add("states", rep.states);
    run.add("transitions", rep.transitions);
    run.add("traces_validated_against_impl", rep.transitions);
    run.add("compared_calls", rep.compared);
    let md = run.get("max_depth").max(rep.max_depth as u64);
    run.set("max_depth", md);
    eprintln!(
        "[{}] {}: states={} transitions={} depth={} fixpoint={} outcomes={} cap={:?} t={:.1}s",
        run.id, a.name, rep.states, rep.transitions, rep.max_depth, rep.fixpoint, rep.distinct_outcomes, rep.cap_hit, run.elapsed()
    );
    for h in rep.sample_histories.iter().take(3) {
        run.sample(json!({ "run": a.name, "history": h }));
    }
    for (hist, v) in rep.violations {
        // determinism: replay the offending history twice more and insist on identical observations
        let (prefix_h, last) = hist.split_at(hist.len() - 1);
        let r1 = expand_one(a, prefix_h, &last[0]);
        let r2 = expand_one(a, prefix_h, &last[0]);
        if r1 != r2 || !r1.iter().any(|s| *s == v.signature) {
            machinery_failure(&format!("violation {} did not reproduce identically on replay of {:?}", v.signature, hist));
        }
        run.violation(
            v.signature.clone(),
            format!("{} [shortest history, {} events]", v.what, hist.len()),
            json!({ "engine": "seqmc-udp", "alphabet": a.name, "history": hist, "signature": v.signature }),
        );
    }
    if need_fixpoint && !rep.fixpoint {
        run.set("exhaustive", false);
    }
}

fn expand_one(a: &Alphabet, hist: &[Ev], ev: &Ev) -> Vec<String> {
    let r = std::panic::catch_unwind(std::panic::AssertUnwindSafe(|| {
        let mut w = replay(a, hist);
        let out = w.apply(ev);
        let mut sigs: Vec<String> = out.violations.iter().map(|v| v.signature.clone()).collect();
        sigs.extend(w.invariants().iter().map(|v| v.signature.clone()));
        let (_, pv, _) = w.probes();
        sigs.extend(pv.iter().map(|v| v.signature.clone()));
        sigs.sort();
        sigs
    }));
    r.unwrap_or_else(|_| vec!["udp/panic".to_string()])
}

pub fn alphabets(tier: Tier) -> Vec<(Alphabet, Limits, bool)> {
    let kinds = vec![Kind::Leech, Kind::Seed, Kind::StartedLeech, Kind::Stop0, Kind::Stop5];
    let th = num_threads();
    let mut v = Vec::new();
    // A1: one torrent, one family, 4 keys, to fixpoint
    for v4 in [true, false] {
        v.push((
            Alphabet {
                name: if v4 { "A1-v4" } else { "A1-v6" },
                opts: WorldOpts { hashes: vec![0], families: vec![v4], ..Default::default() },
                keys: if v4 || tier.thorough() { 4 } else { 3 },
                kinds: kinds.clone(),
                pids: None,
                ages: vec![1],
                lags: vec![0],
                numwants: vec![0],
                scrapes: vec![vec![0], vec![0, NEVER, 0]],
                clock_max: 2,
                reloads: vec![],
                clean: true,
            },
            Limits { max_depth: 64, max_states: 3_000_000, max_wall_s: if tier.thorough() { 900.0 } else { 120.0 }, threads: th },
            true,
        ));
    }
    // A2: two torrents in the same shard x two families, one key each (cross-talk between
    // torrents / shards / families); A2b: two torrents, one family, 2 keys each
    v.push((
        Alphabet {
            name: "A2-2x2",
            opts: WorldOpts { hashes: vec![0, 1], families: vec![true, false], ..Default::default() },
            keys: 1,
            kinds: vec![Kind::Leech, Kind::Seed, Kind::Stop0],
            pids: None,
            ages: vec![1],
            lags: vec![0],
            numwants: vec![0],
            scrapes: vec![vec![0, 1]],
            clock_max: 2,
            reloads: vec![],
            clean: true,
        },
        Limits { max_depth: 64, max_states: 3_000_000, max_wall_s: if tier.thorough() { 900.0 } else { 120.0 }, threads: th },
        true,
    ));
    v.push((
        Alphabet {
            name: "A2b-2torrents",
            opts: WorldOpts { hashes: vec![0, 1], families: vec![true], ..Default::default() },
            keys: 2,
            kinds: vec![Kind::Leech, Kind::Seed, Kind::Stop0],
            pids: None,
            ages: vec![1],
            lags: vec![0],
            numwants: vec![0],
            scrapes: vec![vec![1, 0]],
            clock_max: if tier.thorough() { 2 } else { 1 },
            reloads: vec![],
            clean: true,
        },
        Limits { max_depth: 64, max_states: 3_000_000, max_wall_s: if tier.thorough() { 900.0 } else { 120.0 }, threads: th },
        true,
    ));
    if tier.thorough() {
        // A3: one torrent, 6 keys, depth-bounded
        v.push((
            Alphabet {
                name: "A3-6keys",
                opts: WorldOpts { hashes: vec![0], families: vec![true], ..Default::default() },
                keys: 6,
                kinds: vec![Kind::Leech, Kind::Seed, Kind::Stop0],
                pids: None,
                ages: vec![1],
                lags: vec![0],
                numwants: vec![0, 1, 3],
                scrapes: vec![vec![0]],
                clock_max: 1,
                reloads: vec![],
                clean: true,
            },
            Limits { max_depth: 7, max_states: 4_000_000, max_wall_s: 600.0, threads: th },
            false,
        ));
    }
    v
}

pub fn replay_case(a: &Alphabet, hist: &[Ev]) -> Vec<Violation> {
    let r = std::panic::catch_unwind(std::panic::AssertUnwindSafe(|| {
        let mut out = Vec::new();
        let mut w = fresh_world(a);
        for (i, e) in hist.iter().enumerate() {
            let o = w.apply(e);
            for mut v in o.violations {
                v.what = format!("at event {}: {}", i, v.what);
                out.push(v);
            }
            out.extend(w.invariants());
        }
        let (_, pv, _) = w.probes();
        out.extend(pv);
        out
    }));
    r.unwrap_or_else(|e| vec![Violation { signature: "udp/panic".into(), what: format!("storage code panicked: {}", panic_message(&e)), detail: json!({}) }])
}

pub fn main(args: &Args) -> ! {
    let mut run = Run::new(args, "model_checking");
    run.set("engine", "seqmc: BFS over event histories on aquatic_udp::swarm::TorrentMaps, dedup on (reference model, verif_dump incl. storage order, clock)");
    run.set("exhaustive", true);
    run.assume("values outside the alphabets (more keys, more torrents, larger clocks) are not explored");
    run.assume("single-threaded histories; schedules are C04's");
    let all = alphabets(args.tier);
    if let Some(p) = &args.replay {
        let r = load_replay(p);
        let name = r["detail"]["alphabet"].as_str().unwrap_or("");
        let hist: Vec<Ev> = serde_json::from_value(r["detail"]["history"].clone()).unwrap_or_else(|e| machinery_failure(&format!("bad history: {}", e)));
        let a = alphabets(Tier::Thorough).into_iter().map(|x| x.0).find(|a| a.name == name).unwrap_or_else(|| machinery_failure("unknown alphabet in replay"));
        for v in replay_case(&a, &hist) {
            run.violation(v.signature.clone(), v.what.clone(), json!({ "engine": "seqmc-udp", "alphabet": name, "history": hist }));
        }
        run.set("states", 1);
        run.set("transitions", hist.len());
        run.set("traces_validated_against_impl", 1);
        run.finish();
    }
    for (a, lim, need_fix) in &all {
        run_bfs(&mut run, a, lim, *need_fix);
    }
    run.finish();
}
