//! C01 — UDP swarm bookkeeping equals a reference tracker (seqmc).

use serde_json::json;

use crate::common::*;
use crate::seqmc::{self, Limits};
use crate::udp_sys::*;

pub fn alphabets(tier: Tier) -> Vec<(Alphabet, Limits, bool)> {
    let kinds = vec![Kind::Leech, Kind::Seed, Kind::StartedLeech, Kind::Stop0, Kind::Stop5];
    let th = num_threads();
    let mut v = Vec::new();
    // A1: one torrent, one family, 4 keys, to fixpoint
    for v4 in [true, false] {
        v.push((
            Alphabet {
                name: if v4 { "A1-v4" } else { "A1-v6" },
                opts: WorldOpts { hashes: vec![0], families: vec![v4], ..Default::default() },
                keys: if v4 || tier.thorough() { 4 } else { 3 },
                kinds: kinds.clone(),
                pids: None,
                ages: vec![1],
                lags: vec![0],
                numwants: vec![0],
                scrapes: vec![vec![0], vec![0, NEVER, 0]],
                clock_max: 2,
                reloads: vec![],
                clean: true,
            },
            Limits { max_depth: 64, max_states: 3_000_000, max_wall_s: if tier.thorough() { 900.0 } else { 120.0 }, threads: th },
            true,
        ));
    }
    // A2: two torrents in the same shard x two families, one key each (cross-talk between
    // torrents / shards / families); A2b: two torrents, one family, 2 keys each
    v.push((
        Alphabet {
            name: "A2-2x2",
            opts: WorldOpts { hashes: vec![0, 1], families: vec![true, false], ..Default::default() },
            keys: 1,
            kinds: vec![Kind::Leech, Kind::Seed, Kind::Stop0],
            pids: None,
            ages: vec![1],
            lags: vec![0],
            numwants: vec![0],
            scrapes: vec![vec![0, 1]],
            clock_max: 2,
            reloads: vec![],
            clean: true,
        },
        Limits { max_depth: 64, max_states: 3_000_000, max_wall_s: if tier.thorough() { 900.0 } else { 120.0 }, threads: th },
        true,
    ));
    v.push((
        Alphabet {
            name: "A2b-2torrents",
            opts: WorldOpts { hashes: vec![0, 1], families: vec![true], ..Default::default() },
            keys: 2,
            kinds: vec![Kind::Leech, Kind::Seed, Kind::Stop0],
            pids: None,
            ages: vec![1],
            lags: vec![0],
            numwants: vec![0],
            scrapes: vec![vec![1, 0]],
            clock_max: if tier.thorough() { 2 } else { 1 },
            reloads: vec![],
            clean: true,
        },
        Limits { max_depth: 64, max_states: 3_000_000, max_wall_s: if tier.thorough() { 900.0 } else { 120.0 }, threads: th },
        true,
    ));
    // A4: IPv4 hosts served through the dual-stack IPv6 socket only (use_ipv4 = false, set_only_ipv6 = false): both maps are in use
    v.push((
        Alphabet {
            name: "A4-v6-socket-serves-v4",
            opts: WorldOpts { hashes: vec![0], families: vec![true, false], v6_socket_serves_v4: true, ..Default::default() },
            keys: 2,
            kinds: vec![Kind::Leech, Kind::Seed, Kind::Stop0],
            pids: None,
            ages: vec![1],
            lags: vec![0],
            numwants: vec![0],
            scrapes: vec![vec![0]],
            clock_max: 2,
            reloads: vec![],
            clean: true,
        },
        Limits { max_depth: 64, max_states: 3_000_000, max_wall_s: if tier.thorough() { 900.0 } else { 120.0 }, threads: th },
        true,
    ));
    if tier.thorough() {
        // A3: one torrent, 6 keys, depth-bounded
        v.push((
            Alphabet {
                name: "A3-6keys",
                opts: WorldOpts { hashes: vec![0], families: vec![true], ..Default::default() },
                keys: 6,
                kinds: vec![Kind::Leech, Kind::Seed, Kind::Stop0],
                pids: None,
                ages: vec![1],
                lags: vec![0],
                numwants: vec![0, 1, 3],
                scrapes: vec![vec![0]],
                clock_max: 1,
                reloads: vec![],
                clean: true,
            },
            Limits { max_depth: 7, max_states: 4_000_000, max_wall_s: 600.0, threads: th },
            false,
        ));
    }
    v
}

pub fn main(args: &Args) -> ! {
    let mut run = Run::new(args, "model_checking");
    run.set("engine", "seqmc: BFS over event histories on aquatic_udp::swarm::TorrentMaps, dedup on (reference model, verif_dump incl. storage order, clock)");
    run.set("exhaustive", true);
    run.assume("values outside the alphabets (more keys, more torrents, larger clocks) are not explored");
    run.assume("single-threaded histories; schedules are C04's");
    if let Some(p) = &args.replay {
        let r = load_replay(p);
        let systems: Vec<UdpSys> = alphabets(Tier::Thorough).into_iter().map(|x| UdpSys(x.0)).collect();
        if !seqmc::replay_from_file(&mut run, &r, &systems) {
            machinery_failure("replay file does not belong to this check");
        }
        run.finish();
    }
    for (a, lim, need_fix) in alphabets(args.tier) {
        seqmc::run_bfs(&mut run, &UdpSys(a), &lim, need_fix);
    }
    run.finish();
}
