//! C19 — A dead worker brings the whole tracker down (fault enumeration against `run()` in child processes).

use std::net::{IpAddr, Ipv4Addr, SocketAddr};
use std::time::{Duration, Instant};

use serde_json::json;

use crate::common::*;
use crate::netmc::*;
use crate::props::c13::{ref_encode_request, RefAnnounce, RefRequest};

#[derive(Clone, Debug)]
struct Plan {
    tracker: &'static str, // udp-mio | udp-uring | http | ws
    point: &'static str,
    mode: &'static str,
    nth: usize,
    workers: usize,
    traffic: bool,
    signal: bool,
}

fn plans(th: bool) -> Vec<Plan> {
    let mut v = Vec::new();
    let worker_counts: Vec<usize> = if th { vec![1, 2] } else { vec![1] };
    for &w in &worker_counts {
        for (tracker, uring) in [("udp-mio", false), ("udp-uring", true)] {
            let _ = uring;
            for mode in ["panic", "return"] {
                v.push(Plan { tracker, point: "udp/socket/start", mode, nth: w, workers: w, traffic: false, signal: false });
                // at the first loop iteration, and after requests have been served
                v.push(Plan { tracker, point: "udp/socket/loop", mode, nth: 1, workers: w, traffic: false, signal: false });
                v.push(Plan { tracker, point: "udp/socket/loop", mode, nth: 4, workers: w, traffic: true, signal: false });
                if tracker == "udp-mio" || th {
                    v.push(Plan { tracker, point: "udp/cleaning/loop", mode, nth: 1, workers: w, traffic: false, signal: false });
                    v.push(Plan { tracker, point: "udp/cleaning/loop", mode, nth: 2, workers: w, traffic: true, signal: false });
                    v.push(Plan { tracker, point: "udp/statistics/loop", mode, nth: 1, workers: w, traffic: false, signal: false });
                    v.push(Plan { tracker, point: "udp/statistics/loop", mode, nth: 2, workers: w, traffic: true, signal: false });
                    v.push(Plan { tracker, point: "udp/signals/signal", mode, nth: 1, workers: w, traffic: false, signal: true });
                }
            }
        }
        for mode in ["panic", "return"] {
            v.push(Plan { tracker: "http", point: "http/socket/start", mode, nth: w, workers: w, traffic: false, signal: false });
            v.push(Plan { tracker: "http", point: "http/swarm/start", mode, nth: w, workers: w, traffic: false, signal: false });
            v.push(Plan { tracker: "http", point: "http/signals/signal", mode, nth: 1, workers: w, traffic: false, signal: true });
            v.push(Plan { tracker: "ws", point: "ws/socket/start", mode, nth: w, workers: w, traffic: false, signal: false });
            v.push(Plan { tracker: "ws", point: "ws/swarm/start", mode, nth: w, workers: w, traffic: false, signal: false });
            v.push(Plan { tracker: "ws", point: "ws/socket/accept", mode, nth: 1, workers: w, traffic: true, signal: false });
            v.push(Plan { tracker: "ws", point: "ws/socket/accept", mode, nth: 3, workers: w, traffic: true, signal: false });
            v.push(Plan { tracker: "ws", point: "ws/signals/signal", mode, nth: 1, workers: w, traffic: false, signal: true });
        }
        // sub-task points: a task that merely returns is not a stopped worker, so panic only
        for (point, nth) in [("http/socket/accept", 1), ("http/socket/accept", 3), ("http/socket/connection", 1), ("http/socket/connection", 3), ("http/swarm/request", 1), ("http/swarm/request", 3), ("http/swarm/clean", 1), ("http/swarm/clean", 2)] {
            v.push(Plan { tracker: "http", point, mode: "panic", nth, workers: w, traffic: true, signal: false });
        }
        for (point, nth) in [("ws/socket/connection", 1), ("ws/socket/connection", 3), ("ws/swarm/request", 1), ("ws/swarm/request", 3), ("ws/swarm/control", 1), ("ws/swarm/clean", 1), ("ws/swarm/clean", 2)] {
            v.push(Plan { tracker: "ws", point, mode: "panic", nth, workers: w, traffic: true, signal: false });
        }
    }
    // metrics (prometheus) worker: stops at start-up, in the first moments, after requests were served; or cannot bind its endpoint
    let mut prom: Vec<&'static str> = vec!["udp-mio", "http", "ws"];
    if th {
        prom.push("udp-uring");
    }
    for tracker in prom {
        for mode in ["panic", "return"] {
            v.push(Plan { tracker, point: "common/prometheus/start", mode, nth: 1, workers: 1, traffic: false, signal: false });
            v.push(Plan { tracker, point: "common/prometheus/loop", mode, nth: 1, workers: 1, traffic: false, signal: false });
            v.push(Plan { tracker, point: "common/prometheus/loop", mode, nth: 12, workers: if th { 2 } else { 1 }, traffic: true, signal: false });
        }
        v.push(Plan { tracker, point: "prometheus-bind-failure", mode: "setup", nth: 1, workers: 1, traffic: false, signal: false });
    }
    // many workers: the supervision loop has to get round every handle in time, whatever the position of the stopped
    // worker in its list (7 + 7 workers plus metrics and signals = 16 supervised threads; udp: 12 socket workers)
    for tracker in ["http", "ws"] {
        let w = 7;
        v.push(Plan { tracker, point: "common/prometheus/start", mode: "panic", nth: 1, workers: w, traffic: false, signal: false });
        v.push(Plan { tracker, point: "common/prometheus/loop", mode: "return", nth: 12, workers: w, traffic: true, signal: false });
        v.push(Plan { tracker, point: "prometheus-bind-failure", mode: "setup", nth: 1, workers: w, traffic: false, signal: false });
        v.push(Plan { tracker, point: if tracker == "http" { "http/signals/signal" } else { "ws/signals/signal" }, mode: "panic", nth: 1, workers: w, traffic: false, signal: true });
        v.push(Plan { tracker, point: if tracker == "http" { "http/socket/start" } else { "ws/socket/start" }, mode: "return", nth: w, workers: w, traffic: false, signal: false });
        v.push(Plan { tracker, point: if tracker == "http" { "http/swarm/start" } else { "ws/swarm/start" }, mode: "panic", nth: w, workers: w, traffic: false, signal: false });
    }
    for point in ["udp/signals/signal", "udp/cleaning/loop", "udp/statistics/loop", "common/prometheus/start", "prometheus-bind-failure", "udp/socket/start"] {
        let mode = if point == "prometheus-bind-failure" { "setup" } else { "panic" };
        v.push(Plan { tracker: "udp-mio", point, mode, nth: if point == "udp/socket/start" { 12 } else { 1 }, workers: 12, traffic: false, signal: point == "udp/signals/signal" });
        if th {
            v.push(Plan { tracker: "udp-uring", point, mode, nth: if point == "udp/socket/start" { 12 } else { 1 }, workers: 12, traffic: false, signal: point == "udp/signals/signal" });
        }
    }
    // without hooks: a socket that cannot be set up (address not local)
    for tracker in ["udp-mio", "udp-uring", "http", "ws"] {
        v.push(Plan { tracker, point: "bind-failure", mode: "setup", nth: 1, workers: 1, traffic: false, signal: false });
        if th {
            v.push(Plan { tracker, point: "bind-failure", mode: "setup", nth: 1, workers: 2, traffic: false, signal: false });
        }
    }
    v
}

fn run_plan(p: &Plan) -> Result<(String, i64), (String, String)> {
    let kind: &'static str = if p.tracker.starts_with("udp") { "udp" } else { p.tracker };
    let mut cfg = match kind {
        "udp" => json!({"socket_workers": p.workers, "network": {"use_io_uring": p.tracker == "udp-uring"}, "cleaning": {"torrent_cleaning_interval": 1}, "statistics": {"interval": 1, "print_to_stdout": true}}),
        "http" => json!({"socket_workers": p.workers, "swarm_workers": p.workers, "cleaning": {"torrent_cleaning_interval": 1}}),
        _ => json!({"socket_workers": p.workers, "swarm_workers": p.workers, "cleaning": {"torrent_cleaning_interval": 1}}),
    };
    if p.point.contains("prometheus") {
        let addr = if p.point == "prometheus-bind-failure" { "192.0.2.99:PORT1" } else { "127.0.0.1:PORT1" };
        let section = if kind == "udp" { "statistics" } else { "metrics" };
        cfg[section]["run_prometheus_endpoint"] = json!(true);
        cfg[section]["prometheus_endpoint_address"] = json!(addr);
    }
    if p.point == "bind-failure" {
        if kind == "ws" {
            cfg["network"] = json!({"address": "192.0.2.99:PORT"});
        } else {
            cfg["network"]["address_ipv4"] = json!("192.0.2.99:PORT");
        }
    }
    let plan = json!({"point": p.point, "mode": p.mode, "nth": p.nth});
    let setup = p.mode == "setup";
    let envs: Vec<(&str, String)> = if setup { vec![] } else { vec![("AQV_FAULT_PLAN", plan.to_string())] };
    let mut t = TrackerChild::spawn(kind, cfg, &envs);
    let t0 = Instant::now();
    let mut fired_seen: Option<Instant> = None;
    let mut last_traffic = Instant::now() - Duration::from_secs(1);
    let mut signalled = false;
    let mut ws_conns: Vec<WsConn> = Vec::new();
    loop {
        if fired_seen.is_none() && t.line_with("FAULT-FIRED").is_some() {
            fired_seen = Some(Instant::now());
        }
        if let Some(line) = t.line_with("RUN-RETURNED") {
            let after_fault: i64 = line.split("after_fault_ms=").nth(1).and_then(|s| s.split(' ').next()).and_then(|s| s.parse().ok()).unwrap_or(-1);
            if !line.contains("RUN-RETURNED Err") {
                return Err(("run-returned-ok".into(), format!("run() returned Ok after a worker stopped: {}", line)));
            }
            if !setup && after_fault < 0 {
                return Err(("vacuous".into(), format!("run() returned before the fault point was reached: {}", line)));
            }
            let ms = if setup { t0.elapsed().as_millis() as i64 } else { after_fault };
            if ms > 10_000 {
                return Err(("too-slow".into(), format!("run() returned {} ms after the worker stopped (limit 10 s): {}", ms, line)));
            }
            return Ok((line, ms));
        }
        if let Some(code) = t.exited() {
            std::thread::sleep(Duration::from_millis(100));
            if t.line_with("RUN-RETURNED").is_none() {
                return Err(("process-died".into(), format!("tracker process exited with code {} without run() returning", code)));
            }
            continue;
        }
        if let Some(f) = fired_seen {
            if f.elapsed() > Duration::from_millis(11_500) {
                return Err(("still-running".into(), format!("worker stopped at {} ({}), tracker still running {} ms later", p.point, p.mode, f.elapsed().as_millis())));
            }
        } else if t0.elapsed() > Duration::from_secs(if setup { 11 } else { 25 }) {
            if setup {
                return Err(("still-running".into(), "socket could not be set up, tracker still running after 11 s".into()));
            }
            return Err(("vacuous".into(), format!("fault point {} (hit {}) never reached", p.point, p.nth)));
        }
        // traffic so that per-request points are reached
        if fired_seen.is_none() && last_traffic.elapsed() > Duration::from_millis(150) && t0.elapsed() > Duration::from_millis(300) {
            last_traffic = Instant::now();
            if p.signal && !signalled && t0.elapsed() > Duration::from_millis(1200) {
                unsafe { libc::kill(t.child.id() as i32, libc::SIGUSR1) };
                signalled = true;
            }
            if p.traffic {
                let addr = SocketAddr::new(IpAddr::V4(Ipv4Addr::LOCALHOST), t.port);
                match kind {
                    "udp" => {
                        let s = udp_client(IpAddr::V4(Ipv4Addr::LOCALHOST));
                        let _ = s.send_to(&ref_encode_request(&RefRequest::Connect { transaction_id: 1 }), addr);
                        let mut buf = [0u8; 64];
                        if let Ok((16, _)) = s.recv_from(&mut buf) {
                            let cid = i64::from_be_bytes(buf[8..16].try_into().unwrap());
                            let a = RefAnnounce { connection_id: cid, transaction_id: 2, info_hash: [3; 20], peer_id: [4; 20], downloaded: 0, left: 1, uploaded: 0, event: 2, ip: [0; 4], key: 0, num_want: 1, port: 999 };
                            let _ = s.send_to(&ref_encode_request(&RefRequest::Announce(a)), addr);
                            let _ = s.recv_from(&mut buf);
                        }
                    }
                    "http" => {
                        if let Some(mut c) = HttpConn::connect(addr) {
                            c.stream.set_read_timeout(Some(Duration::from_millis(300))).ok();
                            let path = http_announce_path(&[5; 20], &[6; 20], 999, 1, "started", None, 0);
                            c.send(&http_get(&path, ""));
                            let _ = c.read_reply();
                        }
                    }
                    _ => {
                        if let Some(mut c) = WsConn::connect(addr) {
                            c.send_text(json!({"action": "announce", "info_hash": id20(&[b'h'; 20]), "peer_id": id20(&[b'p'; 20]), "left": 1}).to_string());
                            let _ = c.recv_text(300);
                            // every other connection is closed at once, so that control messages flow
                            if ws_conns.len() % 2 == 0 {
                                c.close_orderly();
                            } else {
                                ws_conns.push(c);
                            }
                            if ws_conns.len() > 6 {
                                ws_conns.clear();
                            }
                        }
                    }
                }
            }
        }
        std::thread::sleep(Duration::from_millis(20));
    }
}

pub fn main(args: &Args) -> ! {
    let mut run = Run::new(args, "fault_enumeration");
    run.set("rule", "fault plan = tracker {udp-mio, udp-uring, http, ws} x fault point (hook H6 probes in every worker kind: socket start / loop / accept / connection task, swarm start / request handler / control handler / cleaning timer, cleaning thread, statistics thread, signal thread; hook H9 in the metrics (prometheus) thread: before serving and on a 100 ms tick while serving) x mode {panic at every point; return at points where returning ends the worker function} x time {first hit, after requests were served} x workers {1, 2}, and the workers at the end of the supervised list (metrics, signals, cleaning, statistics, the last socket / swarm worker to start) with 7 + 7 workers (http, ws) and 12 socket workers (udp); plus, without hooks, a tracker socket and a metrics endpoint that cannot be set up (address not local). Each plan is one child process running run(); non-trivial = the fault point was actually reached (a plan whose point is never reached is exit 2); distinct = distinct plans");
    run.assume("a worker that hangs without finishing is not in the property; a panic inside the metrics thread's detached render task is caught by tokio and does not stop the worker, so it is not a fault plan");
    let ps = plans(args.tier.thorough());
    // plans with few workers side by side; the 14- and 12-worker trackers four at a time (sixteen of them oversubscribe the
    // machine and every timing then needs its isolated re-run)
    let light: Vec<usize> = (0..ps.len()).filter(|i| ps[*i].workers < 7).collect();
    let heavy: Vec<usize> = (0..ps.len()).filter(|i| ps[*i].workers >= 7).collect();
    let mut results: Vec<Option<Result<(String, i64), (String, String)>>> = (0..ps.len()).map(|_| None).collect();
    for (i, r) in light.iter().zip(par_map(&light, 16, |i| run_plan(&ps[*i]))) {
        results[*i] = Some(r);
    }
    for (i, r) in heavy.iter().zip(par_map(&heavy, 4, |i| run_plan(&ps[*i]))) {
        results[*i] = Some(r);
    }
    let mut results: Vec<Result<(String, i64), (String, String)>> = results.into_iter().map(|r| r.unwrap()).collect();
    // timing is part of the property: a plan that fails while 16 trackers run side by side is run again on its own,
    // and only a failure that reproduces is reported (or, for an unreached fault point, treated as a machinery failure)
    let mut reruns = 0u64;
    for (p, r) in ps.iter().zip(results.iter_mut()) {
        if let Err((kind, what)) = &r {
            if std::env::var("AQV_DEBUG").is_ok() {
                eprintln!("[C19-first-pass-failure] {} {} workers={} :: {} {}", p.tracker, p.point, p.workers, kind, what);
            }
            reruns += 1;
            *r = run_plan(p);
        }
    }
    run.set("plans_rerun_in_isolation", reruns);
    let mut reached = 0u64;
    let mut max_ms = 0;
    for (p, r) in ps.iter().zip(results.iter()) {
        let label = format!("{} {} mode={} hit={} workers={}", p.tracker, p.point, p.mode, p.nth, p.workers);
        match r {
            Ok((line, ms)) => {
                if std::env::var("AQV_DEBUG").is_ok() {
                    eprintln!("[C19] {} ms  {}", ms, label);
                }
                reached += 1;
                max_ms = max_ms.max(*ms);
                if run.want_sample() && reached % 7 == 1 {
                    run.sample(json!({"plan": label, "run_returned": line, "ms_after_fault": ms}));
                }
            }
            Err((kind, what)) if kind == "vacuous" => machinery_failure(&format!("plan {}: {}", label, what)),
            Err((kind, what)) => {
                let sig = format!("dead-worker/{}/{}/{}/{}", p.tracker, p.point, p.mode, kind);
                run.violation(sig.clone(), format!("[{}] {}", label, what), json!({"signature": sig, "plan": label}));
            }
        }
    }
    run.set("evaluations", ps.len() as u64);
    run.set("distinct_nontrivial", reached);
    run.set("fault_plans", ps.len() as u64);
    run.set("plans_where_run_returned_err_in_time", reached);
    run.set("max_ms_between_fault_and_return", max_ms);
    run.set("exhaustive", true);
    run.finish();
}
