//! C20 — UDP operator reports are faithful; scrape export replaced atomically.
//! Part 1 (seqmc): totals, per-client tallies and export contents after every cleaning pass.
//! Part 2 (crash points): see `export_crash` below.

use serde_json::json;

use crate::common::*;
use crate::seqmc;
use crate::seqmc::Limits;
use crate::udp_sys::*;

pub fn alphabets(tier: Tier) -> Vec<(Alphabet, Limits, bool)> {
    let th = num_threads();
    let mut v = Vec::new();
    let opts = WorldOpts { hashes: vec![0], families: vec![true], peer_clients: true, stats_active: true, export_dir: Some("/unused".into()), ..Default::default() };
    // R1: one torrent, 2 keys, 3 peer ids on any key: re-announce with a new id, same id on two keys, stop with another id, expiry
    v.push((
        Alphabet {
            name: "R1-ids",
            opts: opts.clone(),
            keys: 3,
            kinds: vec![Kind::Leech, Kind::Seed, Kind::Stop5],
            pids: Some(3),
            ages: vec![1],
            lags: vec![0],
            numwants: vec![0],
            scrapes: vec![],
            clock_max: 2,
            reloads: vec![],
            clean: true,
        },
        Limits { max_depth: 64, max_states: 2_000_000, max_wall_s: if tier.thorough() { 600.0 } else { 60.0 }, threads: th },
        true,
    ));
    // R2: two torrents x two families, one key, two ids (same id on two torrents / families), heap representation via 3 keys in R3
    v.push((
        Alphabet {
            name: "R2-torrents-families",
            opts: WorldOpts { hashes: vec![0, 1], families: vec![true, false], ..opts.clone() },
            keys: 1,
            kinds: vec![Kind::Leech, Kind::Seed, Kind::Stop5],
            pids: Some(2),
            ages: vec![1],
            lags: vec![0],
            numwants: vec![0],
            scrapes: vec![],
            clock_max: 1,
            reloads: vec![],
            clean: true,
        },
        Limits { max_depth: 64, max_states: 2_000_000, max_wall_s: if tier.thorough() { 600.0 } else { 60.0 }, threads: th },
        true,
    ));
    // R3: heap representation: 4 keys with own ids, id change on one key
    v.push((
        Alphabet {
            name: "R3-heap",
            opts: opts.clone(),
            keys: 4,
            kinds: vec![Kind::Leech, Kind::Seed, Kind::Stop5],
            pids: None,
            ages: vec![1, 2],
            lags: vec![0],
            numwants: vec![0],
            scrapes: vec![],
            clock_max: 2,
            reloads: vec![],
            clean: true,
        },
        Limits { max_depth: if tier.thorough() { 64 } else { 6 }, max_states: 2_000_000, max_wall_s: if tier.thorough() { 600.0 } else { 60.0 }, threads: th },
        tier.thorough(),
    ));
    v
}

pub fn main(args: &Args) -> ! {
    let mut run = Run::new(args, "model_checking");
    run.set("engine", "seqmc over aquatic_udp::swarm::TorrentMaps with statistics + peer_clients + scrape export enabled; tally = the statistics worker's own fold over the drained channel");
    run.set("exhaustive", true);
    run.assume("process-kill crash model for the export (no power loss)");
    run.assume("access list off (with a list, the export is documented to lag)");
    if let Some(p) = &args.replay {
        let r = load_replay(p);
        let systems: Vec<UdpSys> = alphabets(Tier::Thorough).into_iter().map(|x| UdpSys(x.0)).collect();
        if !seqmc::replay_from_file(&mut run, &r, &systems) {
            machinery_failure("replay file does not belong to this check");
        }
        run.finish();
    }
    for (a, lim, need_fix) in alphabets(args.tier) {
        seqmc::run_bfs(&mut run, &UdpSys(a), &lim, need_fix);
    }
    run.finish();
}
