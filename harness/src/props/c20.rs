//! C20 — UDP operator reports are faithful; scrape export replaced atomically.
//! Part 1 (seqmc): totals, per-client tallies and export contents after every cleaning pass.
//! Part 2 (crash points): see `export_crash` below.

use serde_json::json;

use crate::common::*;
use crate::seqmc;
use crate::seqmc::Limits;
use crate::udp_sys::*;

pub fn alphabets(tier: Tier) -> Vec<(Alphabet, Limits, bool)> {
    let th = num_threads();
    let mut v = Vec::new();
    let opts = WorldOpts { hashes: vec![0], families: vec![true], peer_clients: true, stats_active: true, export_dir: Some("/unused".into()), ..Default::default() };
    // R1: one torrent, 2 keys, 3 peer ids on any key: re-announce with a new id, same id on two keys, stop with another id, expiry
    v.push((
        Alphabet {
            name: "R1-ids",
            opts: opts.clone(),
            keys: 3,
            kinds: vec![Kind::Leech, Kind::Seed, Kind::Stop5],
            pids: Some(3),
            ages: vec![1],
            lags: vec![0],
            numwants: vec![0],
            scrapes: vec![],
            clock_max: 2,
            reloads: vec![],
            clean: true,
        },
        Limits { max_depth: 64, max_states: 2_000_000, max_wall_s: if tier.thorough() { 600.0 } else { 60.0 }, threads: th },
        true,
    ));
    // R2: two torrents x two families, one key, two ids (same id on two torrents / families), heap representation via 3 keys in R3
    v.push((
        Alphabet {
            name: "R2-torrents-families",
            opts: WorldOpts { hashes: vec![0, 1], families: vec![true, false], ..opts.clone() },
            keys: 1,
            kinds: vec![Kind::Leech, Kind::Seed, Kind::Stop5],
            pids: Some(2),
            ages: vec![1],
            lags: vec![0],
            numwants: vec![0],
            scrapes: vec![],
            clock_max: 1,
            reloads: vec![],
            clean: true,
        },
        Limits { max_depth: 64, max_states: 2_000_000, max_wall_s: if tier.thorough() { 600.0 } else { 60.0 }, threads: th },
        true,
    ));
    // R4: IPv4 hosts served through the dual-stack IPv6 socket alone (`use_ipv4 = false`, `set_only_ipv6 = false`): totals, tallies and
    // export lines of both families
    v.push((
        Alphabet {
            name: "R4-v6-socket-serves-v4",
            opts: WorldOpts { hashes: vec![0], families: vec![true, false], v6_socket_serves_v4: true, ..opts.clone() },
            keys: 1,
            kinds: vec![Kind::Leech, Kind::Seed, Kind::Stop5],
            pids: Some(2),
            ages: vec![1],
            lags: vec![0],
            numwants: vec![0],
            scrapes: vec![],
            clock_max: 2,
            reloads: vec![],
            clean: true,
        },
        Limits { max_depth: 64, max_states: 2_000_000, max_wall_s: if tier.thorough() { 600.0 } else { 60.0 }, threads: th },
        true,
    ));
    // R3: heap representation: 4 keys with own ids, id change on one key
    v.push((
        Alphabet {
            name: "R3-heap",
            opts: opts.clone(),
            keys: 4,
            kinds: vec![Kind::Leech, Kind::Seed, Kind::Stop5],
            pids: None,
            ages: vec![1, 2],
            lags: vec![0],
            numwants: vec![0],
            scrapes: vec![],
            clock_max: 2,
            reloads: vec![],
            clean: true,
        },
        Limits { max_depth: if tier.thorough() { 64 } else { 6 }, max_states: 2_000_000, max_wall_s: if tier.thorough() { 600.0 } else { 60.0 }, threads: th },
        tier.thorough(),
    ));
    v
}


// ---------------------------------------------------------------------------------------------- part 2: crash points

fn parse_export(bytes: &[u8]) -> Result<std::collections::BTreeSet<String>, String> {
    let s = std::str::from_utf8(bytes).map_err(|_| "not UTF-8".to_string())?;
    let mut set = std::collections::BTreeSet::new();
    for l in s.split_inclusive('\n') {
        if !l.ends_with('\n') {
            return Err(format!("last line not newline-terminated: {:?}", l));
        }
        let f: Vec<&str> = l.trim_end_matches('\n').split(' ').collect();
        if f.len() != 4 || !(f[0] == "4" || f[0] == "6") || f[1].len() != 40 || f[2].parse::<u64>().is_err() || f[3].parse::<u64>().is_err() {
            return Err(format!("malformed line {:?}", l));
        }
        if !set.insert(l.to_string()) {
            return Err(format!("duplicate line {:?}", l));
        }
    }
    Ok(set)
}

fn export_child(dir: &std::path::Path, n: usize, reader: bool, kill_at: usize) -> (Option<i32>, String) {
    let exe = std::env::current_exe().unwrap().with_file_name("aqv_export");
    let mut cmd = std::process::Command::new(exe);
    cmd.arg(dir).arg(n.to_string()).arg(if reader { "1" } else { "0" });
    if kill_at > 0 {
        cmd.env("AQV_KILL_AT", kill_at.to_string());
    }
    let out = cmd.output().unwrap_or_else(|e| machinery_failure(&format!("cannot run aqv_export: {}", e)));
    (out.status.code(), String::from_utf8_lossy(&out.stdout).to_string())
}

pub fn export_crash(run: &mut Run, thorough: bool) {
    let sizes: Vec<usize> = if thorough { vec![0, 1, 3, 300, 3000, 20_000] } else { vec![0, 1, 3, 300, 3000] };
    let mut crash_points = 0u64;
    let mut histories = 0u64;
    let mut recoveries = 0u64;
    // what the next export after a restart must look like (a small swarm: 2 torrents), produced in a clean directory
    let small_n = 2usize;
    let small: std::collections::BTreeSet<String> = {
        let d = tempfile::tempdir().unwrap();
        let (c, _) = export_child(d.path(), small_n, false, 0);
        if c != Some(0) {
            machinery_failure("reference export of the small swarm could not be produced");
        }
        parse_export(&std::fs::read(d.path().join("export.txt")).unwrap_or_default()).unwrap_or_else(|e| machinery_failure(&format!("reference export malformed: {}", e)))
    };
    for n in sizes {
        for prev_n in [None, Some(2usize), Some(500)] {
            histories += 1;
            let dir = tempfile::tempdir().unwrap();
            let path = dir.path().join("export.txt");
            // previous complete export (from a different swarm), produced by the real code
            let prev: Option<std::collections::BTreeSet<String>> = match prev_n {
                None => None,
                Some(pn) => {
                    let (c, _) = export_child(dir.path(), pn, false, 0);
                    if c != Some(0) {
                        machinery_failure("previous export could not be produced");
                    }
                    Some(parse_export(&std::fs::read(&path).unwrap()).unwrap_or_else(|e| machinery_failure(&format!("previous export malformed: {}", e))))
                }
            };
            let prev_bytes = prev.as_ref().map(|_| std::fs::read(&path).unwrap());
            // uninterrupted run: number of steps and the complete new export
            let (c, out) = export_child(dir.path(), n, false, 0);
            let steps: usize = out.lines().find_map(|l| l.strip_prefix("STEPS ")).and_then(|s| s.trim().parse().ok()).unwrap_or(0);
            if c != Some(0) || steps < 2 {
                machinery_failure(&format!("uninterrupted export failed (code {:?}, steps {})", c, steps));
            }
            let new = match parse_export(&std::fs::read(&path).unwrap_or_default()) {
                Ok(s) => s,
                Err(e) => {
                    run.violation("udp/export/malformed", format!("complete export of {} torrents is malformed: {}", n, e), json!({"engine": "export-crash", "torrents": n}));
                    continue;
                }
            };
            if new.len() != n {
                run.violation("udp/export/line-count", format!("export of {} torrents with peers has {} lines", n, new.len()), json!({"engine": "export-crash", "torrents": n}));
            }
            // a process kill immediately before every file-system-mutating call, and after the last one
            for k in 1..=steps + 1 {
                crash_points += 1;
                // restore the previous state
                let _ = std::fs::remove_file(&path);
                let _ = std::fs::remove_file(dir.path().join("export.tmp"));
                if let Some(b) = &prev_bytes {
                    std::fs::write(&path, b).unwrap();
                }
                let (code, out) = export_child(dir.path(), n, false, k);
                let killed = out.contains("KILLED-BEFORE");
                if (k <= steps) != killed || (killed && code != Some(9)) {
                    machinery_failure(&format!("crash point {} of {}: killed={} code={:?}", k, steps, killed, code));
                }
                let detail = json!({"engine": "export-crash", "torrents": n, "previous_export_torrents": prev_n, "kill_before_step": k, "steps": steps, "killed_at": out.lines().find(|l| l.starts_with("KILLED")).unwrap_or("")});
                match std::fs::read(&path) {
                    Err(_) => {
                        if prev.is_some() {
                            run.violation("udp/export/crash-loses-file", format!("process killed before step {} of {}: the configured path no longer exists although a previous export was there", k, steps), detail);
                        }
                    }
                    Ok(b) => match parse_export(&b) {
                        Ok(set) => {
                            if Some(&set) != prev.as_ref() && set != new {
                                run.violation("udp/export/crash-mixed-content", format!("process killed before step {} of {}: the file at the configured path is neither the previous nor the new export ({} lines)", k, steps, set.len()), detail.clone());
                            }
                            if prev.is_none() && k <= steps && set == new && steps > 2 && k < steps {
                                run.violation("udp/export/visible-before-rename", format!("new export visible at the configured path although the process was killed before step {} of {}", k, steps), detail);
                            }
                        }
                        Err(e) => run.violation("udp/export/crash-torn-file", format!("process killed before step {} of {}: the file at the configured path is torn: {}", k, steps, e), detail),
                    },
                }
            }
            // ---- after the crash: the tracker is restarted (whatever the killed export left behind stays in the
            // directory) with a small swarm and exports again; the result must be exactly that swarm's export
            for k in 1..=steps {
                let _ = std::fs::remove_file(&path);
                let _ = std::fs::remove_file(dir.path().join("export.tmp"));
                if let Some(b) = &prev_bytes {
                    std::fs::write(&path, b).unwrap();
                }
                let (_, out) = export_child(dir.path(), n, false, k);
                if !out.contains("KILLED-BEFORE") {
                    machinery_failure(&format!("recovery history: crash point {} of {} not reached", k, steps));
                }
                let leftovers: Vec<String> = std::fs::read_dir(dir.path()).map(|rd| rd.flatten().map(|e| format!("{}:{}", e.file_name().to_string_lossy(), e.metadata().map(|m| m.len()).unwrap_or(0))).collect()).unwrap_or_default();
                let (c, _) = export_child(dir.path(), small_n, false, 0);
                recoveries += 1;
                let detail = json!({"engine": "export-crash", "torrents": n, "previous_export_torrents": prev_n, "kill_before_step": k, "steps": steps, "then": "restart with 2 torrents and export", "directory_after_kill": leftovers});
                if c != Some(0) {
                    run.violation("udp/export/export-after-crash-fails", format!("after a kill before step {} of {} the next export (2 torrents) fails with code {:?}", k, steps, c), detail);
                    continue;
                }
                match parse_export(&std::fs::read(&path).unwrap_or_default()) {
                    Ok(set) if set == small => {}
                    Ok(set) => run.violation("udp/export/export-after-crash-wrong", format!("after a kill before step {} of {} (directory then: {:?}) the next export of 2 torrents lists {} torrents", k, steps, leftovers, set.len()), detail),
                    Err(e) => run.violation("udp/export/export-after-crash-wrong", format!("after a kill before step {} of {} (directory then: {:?}) the next export of 2 torrents is malformed: {}", k, steps, leftovers, e), detail),
                }
            }
            // concurrent reader during uninterrupted exports
            let _ = std::fs::remove_file(&path);
            if let Some(b) = &prev_bytes {
                std::fs::write(&path, b).unwrap();
            }
            if n >= 300 {
                let (c, out) = export_child(dir.path(), n, true, 0);
                if c != Some(0) {
                    machinery_failure("reader run failed");
                }
                let distinct: usize = out.lines().find_map(|l| l.strip_prefix("READER-DISTINCT ")).and_then(|s| s.trim().parse().ok()).unwrap_or(0);
                for i in 0..distinct {
                    let b = std::fs::read(dir.path().join(format!("seen-{}.txt", i))).unwrap_or_default();
                    let ok = match parse_export(&b) {
                        Ok(set) => Some(&set) == prev.as_ref() || set == new,
                        Err(_) => false,
                    };
                    if !ok {
                        run.violation("udp/export/reader-saw-partial-file", format!("a reader polling the configured path during exports of {} torrents saw a file that is neither the previous nor the new complete export ({} bytes)", n, b.len()), json!({"engine": "export-crash", "torrents": n, "reader": true}));
                    }
                }
                run.add("reader_distinct_contents", distinct as u64);
            }
        }
    }
    run.set("export_histories", histories);
    run.set("crash_points", crash_points);
    run.set("exports_after_a_crash", recoveries);
    run.add("states", crash_points);
    run.add("transitions", crash_points);
    run.add("traces_validated_against_impl", crash_points);
}

pub fn main(args: &Args) -> ! {
    let mut run = Run::new(args, "model_checking");
    run.set("engine", "seqmc over aquatic_udp::swarm::TorrentMaps with statistics + peer_clients + scrape export enabled; tally = the statistics worker's own fold over the drained channel");
    run.set("exhaustive", true);
    run.assume("process-kill crash model for the export (no power loss)");
    run.assume("access list off (with a list, the export is documented to lag)");
    if let Some(p) = &args.replay {
        let r = load_replay(p);
        let systems: Vec<UdpSys> = alphabets(Tier::Thorough).into_iter().map(|x| UdpSys(x.0)).collect();
        if r["detail"]["engine"] == "export-crash" {
            export_crash(&mut run, true);
        } else if !seqmc::replay_from_file(&mut run, &r, &systems) {
            machinery_failure("replay file does not belong to this check");
        }
        run.finish();
    }
    for (a, lim, need_fix) in alphabets(args.tier) {
        seqmc::run_bfs(&mut run, &UdpSys(a), &lim, need_fix);
    }
    export_crash(&mut run, args.tier.thorough());
    run.sample(json!({"crash_point": "process killed immediately before the rename of export.tmp onto the configured path", "expected": "previous complete export still in place"}));
    run.finish();
}
