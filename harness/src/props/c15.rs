//! C15 — WebTorrent JSON codec round-trips; 20-byte ids are exact (exhaustive over a constructed space).

use std::collections::{BTreeSet, HashSet};

use aquatic_ws_protocol::common::*;
use aquatic_ws_protocol::incoming::*;
use aquatic_ws_protocol::outgoing::*;
use serde_json::{json, Value};
use tungstenite::Message;

use crate::common::*;

struct Ctx<'a> {
    run: &'a mut Run,
    evals: u64,
    distinct: HashSet<u64>,
    kinds: BTreeSet<String>,
}

fn id(seed: u8) -> [u8; 20] {
    core::array::from_fn(|i| seed.wrapping_mul(31).wrapping_add((i as u8).wrapping_mul(17)))
}

/// the rule of the property: a JSON string of exactly 20 characters, each <= U+00FF
fn id_string_ok(s: &str) -> Option<[u8; 20]> {
    let cs: Vec<char> = s.chars().collect();
    if cs.len() != 20 || cs.iter().any(|c| *c as u32 > 255) {
        return None;
    }
    Some(core::array::from_fn(|i| cs[i] as u32 as u8))
}

fn id_to_string(b: &[u8; 20]) -> String {
    b.iter().map(|x| char::from(*x)).collect()
}

impl<'a> Ctx<'a> {
    fn fail(&mut self, sig: &str, what: String, case: Value) {
        self.run.violation(sig, what, json!({"signature": sig, "case": case}));
    }

    fn in_roundtrip(&mut self, m: &InMessage, label: &str) {
        let text = m.to_ws_message();
        let s = match &text {
            Message::Text(t) => t.as_str().to_string(),
            _ => {
                self.fail("wscodec/in/not-text", "to_ws_message did not produce a text message".into(), json!({}));
                return;
            }
        };
        self.distinct.insert(fp64(&s));
        for (variant, msg) in [("text", Message::text(s.clone())), ("binary", Message::binary(s.clone().into_bytes()))] {
            self.evals += 1;
            let r = std::panic::catch_unwind(|| InMessage::from_ws_message(msg));
            let case = json!({"kind": "in-json", "json": s, "variant": variant});
            match r {
                Err(e) => self.fail("wscodec/in/panic", format!("from_ws_message panicked ({}): {}", label, panic_message(&e)), case),
                Ok(Err(e)) => self.fail("wscodec/in/roundtrip", format!("{} ({}): message does not decode again: {:#}; json {}", label, variant, e, short(&s)), case),
                Ok(Ok(back)) => {
                    if back != *m {
                        self.fail("wscodec/in/roundtrip", format!("{} ({}): decoded message differs: {:?} vs {:?}", label, variant, short(&format!("{:?}", back)), short(&format!("{:?}", m))), case);
                    } else {
                        self.kinds.insert(format!("in-{}-{}", label, variant));
                    }
                }
            }
        }
        self.check_ids_in_json(&s, label);
    }

    fn out_roundtrip(&mut self, m: &OutMessage, label: &str) {
        let s = match m.to_ws_message() {
            Message::Text(t) => t.as_str().to_string(),
            _ => {
                self.fail("wscodec/out/not-text", "to_ws_message did not produce a text message".into(), json!({}));
                return;
            }
        };
        self.distinct.insert(fp64(&s));
        for (variant, msg) in [("text", Message::text(s.clone())), ("binary", Message::binary(s.clone().into_bytes()))] {
            self.evals += 1;
            let r = std::panic::catch_unwind(|| OutMessage::from_ws_message(msg));
            let case = json!({"kind": "out-json", "json": s, "variant": variant});
            match r {
                Err(e) => self.fail("wscodec/out/panic", format!("from_ws_message panicked ({}): {}", label, panic_message(&e)), case),
                Ok(Err(e)) => self.fail("wscodec/out/roundtrip", format!("{} ({}): message does not decode again: {:#}; json {}", label, variant, e, short(&s)), case),
                Ok(Ok(back)) => {
                    if back != *m {
                        self.fail("wscodec/out/roundtrip", format!("{} ({}): decoded message differs: {:?} vs {:?}", label, variant, short(&format!("{:?}", back)), short(&format!("{:?}", m))), case);
                    } else {
                        self.kinds.insert(format!("out-{}-{}", label, variant));
                    }
                }
            }
        }
        self.check_ids_in_json(&s, label);
    }

    /// every identifier field in the serialised JSON is a string of exactly 20 characters <= U+00FF
    fn check_ids_in_json(&mut self, s: &str, label: &str) {
        let v: Value = match serde_json::from_str(s) {
            Ok(v) => v,
            Err(e) => {
                self.fail("wscodec/not-json", format!("{}: serialised message is not valid JSON: {}", label, e), json!({"json": s}));
                return;
            }
        };
        fn walk(v: &Value, key: Option<&str>, bad: &mut Vec<String>) {
            match v {
                Value::Object(o) => {
                    for (k, x) in o {
                        if k == "files" {
                            if let Value::Object(f) = x {
                                for hk in f.keys() {
                                    if id_string_ok(hk).is_none() {
                                        bad.push(format!("files key {:?}", hk));
                                    }
                                }
                            }
                        }
                        walk(x, Some(k), bad);
                    }
                }
                Value::Array(a) => {
                    for x in a {
                        walk(x, key, bad);
                    }
                }
                Value::String(st) => {
                    if matches!(key, Some("info_hash") | Some("peer_id") | Some("to_peer_id") | Some("offer_id")) && id_string_ok(st).is_none() {
                        bad.push(format!("{} = {:?}", key.unwrap(), st));
                    }
                }
                _ => {}
            }
        }
        let mut bad = Vec::new();
        walk(&v, None, &mut bad);
        if !bad.is_empty() {
            self.fail("wscodec/id-encoding", format!("{}: identifier not encoded as 20 characters in U+0000-U+00FF: {:?}", label, bad), json!({"json": s}));
        }
    }

    /// hand-built JSON -> decoder; expectation given
    fn in_json(&mut self, text: &str, expect: Option<&InMessage>, label: &str) {
        self.distinct.insert(fp64(text));
        for (variant, msg) in [("text", Message::text(text.to_string())), ("binary", Message::binary(text.as_bytes().to_vec()))] {
            self.evals += 1;
            let r = std::panic::catch_unwind(|| InMessage::from_ws_message(msg));
            let case = json!({"kind": "in-json", "json": text, "variant": variant, "label": label});
            match (r, expect) {
                (Err(e), _) => self.fail("wscodec/in/panic", format!("from_ws_message panicked ({}): {}", label, panic_message(&e)), case),
                (Ok(Ok(got)), Some(exp)) => {
                    if got != *exp {
                        self.fail(&format!("wscodec/in/{}", label), format!("{} ({}): decoded {:?}, expected {:?}; json {}", label, variant, short(&format!("{:?}", got)), short(&format!("{:?}", exp)), short(text)), case);
                    } else {
                        self.kinds.insert(format!("json-accept-{}", label));
                    }
                }
                (Ok(Err(e)), Some(_)) => self.fail(&format!("wscodec/in/{}", label), format!("{} ({}): valid message rejected: {:#}; json {}", label, variant, e, short(text)), case),
                (Ok(Ok(got)), None) => self.fail(&format!("wscodec/in/{}", label), format!("{} ({}): message must be rejected but decoded as {:?}; json {}", label, variant, short(&format!("{:?}", got)), short(text)), case),
                (Ok(Err(_)), None) => {
                    self.kinds.insert(format!("json-reject-{}", label));
                }
            }
        }
    }
}

fn short(s: &str) -> String {
    if s.chars().count() > 300 {
        format!("{}…", s.chars().take(300).collect::<String>())
    } else {
        s.to_string()
    }
}

fn sdps() -> Vec<String> {
    let mut v: Vec<String> = vec!["".into(), "v=0\r\no=- 1 2 IN IP4 127.0.0.1\r\n".into(), "\"quoted\" \\back\\slash\\ / \u{8} \u{c}".into(), "\u{2028}\u{2029} \u{feff} 𝕊 🦀 \u{10ffff}".into()];
    // every control character and every Latin-1 supplement character
    v.push((0u32..0x20).chain(0x7f..=0xff).filter_map(char::from_u32).collect());
    v.push("x".repeat(60 * 1024));
    v.push("é".repeat(1000));
    v
}

fn base_announce() -> AnnounceRequest {
    AnnounceRequest {
        action: AnnounceAction::Announce,
        info_hash: InfoHash(id(1)),
        peer_id: PeerId(id(2)),
        bytes_left: Some(5),
        event: Some(AnnounceEvent::Started),
        offers: None,
        numwant: None,
        answer: None,
        answer_to_peer_id: None,
        answer_offer_id: None,
    }
}

pub fn main(args: &Args) -> ! {
    let mut run = Run::new(args, "exploration");
    run.set("rule", "every message kind x optional fields present / absent / null; SDP strings with quotes, backslashes, every control and Latin-1 character, U+2028, non-BMP, 60 KiB; identifiers with every byte value at every position; each as text and as binary WebSocket message; hand-built JSON identifier strings of every length 0..=40 over {'a','é','Ā','𝕊'} raw and escaped. distinct = distinct JSON texts; every case has an expected value");
    run.assume("JSON is produced by serde_json and consumed by simd-json exactly as the tracker and the bundled client do");

    if let Some(p) = &args.replay {
        let r = load_replay(p);
        let c = &r["detail"]["case"];
        let text = c["json"].as_str().unwrap_or("").to_string();
        let mut ctx = Ctx { run: &mut run, evals: 0, distinct: Default::default(), kinds: Default::default() };
        let msg = if c["variant"] == "binary" { Message::binary(text.clone().into_bytes()) } else { Message::text(text.clone()) };
        let res = if c["kind"] == "out-json" { format!("{:?}", std::panic::catch_unwind(|| OutMessage::from_ws_message(msg).map_err(|e| e.to_string()))) } else { format!("{:?}", std::panic::catch_unwind(|| InMessage::from_ws_message(msg).map_err(|e| e.to_string()))) };
        ctx.fail("wscodec/replay-info", format!("replay of {} gives {}", short(&text), short(&res)), c.clone());
        run.set("evaluations", 1);
        run.set("distinct_nontrivial", 2);
        run.finish();
    }

    let mut ctx = Ctx { run: &mut run, evals: 0, distinct: Default::default(), kinds: Default::default() };
    let sdps = sdps();

    // ---- announces: events x left x offers x answer
    let events = [None, Some(AnnounceEvent::Started), Some(AnnounceEvent::Stopped), Some(AnnounceEvent::Completed), Some(AnnounceEvent::Update)];
    let lefts = [None, Some(0usize), Some(1), Some(1 << 53), Some(usize::MAX)];
    for (ei, ev) in events.iter().enumerate() {
        for (li, left) in lefts.iter().enumerate() {
            for n_off in 0..=3usize {
                for ans in 0..3 {
                    let offers = if n_off == 0 && (ei + li) % 2 == 0 {
                        None
                    } else {
                        Some((0..n_off).map(|i| AnnounceRequestOffer { offer: RtcOffer { t: RtcOfferType::Offer, sdp: sdps[(ei + li + i) % sdps.len()].clone() }, offer_id: OfferId(id(40 + i as u8)) }).collect::<Vec<_>>())
                    };
                    let m = AnnounceRequest {
                        bytes_left: *left,
                        event: *ev,
                        numwant: offers.as_ref().map(|o| o.len()),
                        offers,
                        answer: (ans >= 1).then(|| RtcAnswer { t: RtcAnswerType::Answer, sdp: sdps[(ei * 3 + li + ans) % sdps.len()].clone() }),
                        answer_to_peer_id: (ans >= 1).then(|| PeerId(id(7))),
                        answer_offer_id: (ans == 1).then(|| OfferId(id(8))),
                        ..base_announce()
                    };
                    ctx.in_roundtrip(&InMessage::AnnounceRequest(m), "announce");
                }
            }
        }
    }
    // ---- scrapes
    for hs in [None, Some(ScrapeRequestInfoHashes::Single(InfoHash(id(3)))), Some(ScrapeRequestInfoHashes::Multiple(vec![])), Some(ScrapeRequestInfoHashes::Multiple(vec![InfoHash(id(3))])), Some(ScrapeRequestInfoHashes::Multiple(vec![InfoHash(id(3)), InfoHash(id(4)), InfoHash([0xff; 20])]))] {
        ctx.in_roundtrip(&InMessage::ScrapeRequest(ScrapeRequest { action: ScrapeAction::Scrape, info_hashes: hs }), "scrape");
    }
    // ---- identifiers with every byte value at every position (in and out messages)
    for pos in 0..20 {
        for val in 0..=255u8 {
            let mut a = id(9);
            a[pos] = val;
            let mut b = id(10);
            b[19 - pos] = val;
            ctx.in_roundtrip(&InMessage::AnnounceRequest(AnnounceRequest { info_hash: InfoHash(a), peer_id: PeerId(b), answer: Some(RtcAnswer { t: RtcAnswerType::Answer, sdp: "s".into() }), answer_to_peer_id: Some(PeerId(a)), answer_offer_id: Some(OfferId(b)), ..base_announce() }), "ids");
            if val % 5 == 0 {
                ctx.out_roundtrip(&OutMessage::OfferOutMessage(OfferOutMessage { action: AnnounceAction::Announce, peer_id: PeerId(a), info_hash: InfoHash(b), offer: RtcOffer { t: RtcOfferType::Offer, sdp: "s".into() }, offer_id: OfferId(a) }), "ids");
                let mut files = hashbrown::HashMap::new();
                files.insert(InfoHash(a), ScrapeStatistics { complete: 1, incomplete: 2, downloaded: 0 });
                files.insert(InfoHash(b), ScrapeStatistics { complete: 0, incomplete: 0, downloaded: 0 });
                ctx.out_roundtrip(&OutMessage::ScrapeResponse(ScrapeResponse { action: ScrapeAction::Scrape, files }), "ids");
            }
        }
    }
    // ---- out messages of every kind
    for sdp in &sdps {
        ctx.out_roundtrip(&OutMessage::OfferOutMessage(OfferOutMessage { action: AnnounceAction::Announce, peer_id: PeerId(id(1)), info_hash: InfoHash(id(2)), offer: RtcOffer { t: RtcOfferType::Offer, sdp: sdp.clone() }, offer_id: OfferId(id(3)) }), "offer");
        ctx.out_roundtrip(&OutMessage::AnswerOutMessage(AnswerOutMessage { action: AnnounceAction::Announce, peer_id: PeerId(id(1)), info_hash: InfoHash(id(2)), answer: RtcAnswer { t: RtcAnswerType::Answer, sdp: sdp.clone() }, offer_id: OfferId(id(3)) }), "answer");
    }
    for c in [0usize, 1, 1 << 53, usize::MAX] {
        ctx.out_roundtrip(&OutMessage::AnnounceResponse(AnnounceResponse { action: AnnounceAction::Announce, info_hash: InfoHash(id(5)), complete: c, incomplete: c / 2, announce_interval: 120 }), "announce-reply");
    }
    for n in 0..=5usize {
        let files = (0..n).map(|i| (InfoHash(id(60 + i as u8)), ScrapeStatistics { complete: i, incomplete: n - i, downloaded: 0 })).collect();
        ctx.out_roundtrip(&OutMessage::ScrapeResponse(ScrapeResponse { action: ScrapeAction::Scrape, files }), "scrape-reply");
    }
    for action in [None, Some(ErrorResponseAction::Announce), Some(ErrorResponseAction::Scrape)] {
        for ih in [None, Some(InfoHash(id(6)))] {
            for reason in ["", "Info hash not allowed", "quote \" backslash \\ ünï 𝕊"] {
                ctx.out_roundtrip(&OutMessage::ErrorResponse(ErrorResponse { failure_reason: reason.to_string().into(), action: action.clone(), info_hash: ih }), "error-reply");
            }
        }
    }

    // ---- hand-built JSON: optional fields present / absent / null
    let ih = id_to_string(&id(1));
    let pid = id_to_string(&id(2));
    let opt_variants = ["present", "absent", "null"];
    for lv in opt_variants {
        for evv in opt_variants {
            for ofv in opt_variants {
                for anv in opt_variants {
                    let mut o = serde_json::Map::new();
                    o.insert("action".into(), json!("announce"));
                    o.insert("info_hash".into(), json!(ih));
                    o.insert("peer_id".into(), json!(pid));
                    let mut exp = AnnounceRequest { bytes_left: None, event: None, ..base_announce() };
                    match lv {
                        "present" => {
                            o.insert("left".into(), json!(7));
                            exp.bytes_left = Some(7);
                        }
                        "null" => {
                            o.insert("left".into(), Value::Null);
                        }
                        _ => {}
                    }
                    match evv {
                        "present" => {
                            o.insert("event".into(), json!("completed"));
                            exp.event = Some(AnnounceEvent::Completed);
                        }
                        "null" => {
                            o.insert("event".into(), Value::Null);
                        }
                        _ => {}
                    }
                    match ofv {
                        "present" => {
                            o.insert("offers".into(), json!([{"offer": {"type": "offer", "sdp": "abc"}, "offer_id": id_to_string(&id(40))}]));
                            o.insert("numwant".into(), json!(1));
                            exp.offers = Some(vec![AnnounceRequestOffer { offer: RtcOffer { t: RtcOfferType::Offer, sdp: "abc".into() }, offer_id: OfferId(id(40)) }]);
                            exp.numwant = Some(1);
                        }
                        "null" => {
                            o.insert("offers".into(), Value::Null);
                            o.insert("numwant".into(), Value::Null);
                        }
                        _ => {}
                    }
                    match anv {
                        "present" => {
                            o.insert("answer".into(), json!({"type": "answer", "sdp": "def"}));
                            o.insert("to_peer_id".into(), json!(id_to_string(&id(7))));
                            o.insert("offer_id".into(), json!(id_to_string(&id(8))));
                            exp.answer = Some(RtcAnswer { t: RtcAnswerType::Answer, sdp: "def".into() });
                            exp.answer_to_peer_id = Some(PeerId(id(7)));
                            exp.answer_offer_id = Some(OfferId(id(8)));
                        }
                        "null" => {
                            o.insert("answer".into(), Value::Null);
                            o.insert("to_peer_id".into(), Value::Null);
                            o.insert("offer_id".into(), Value::Null);
                        }
                        _ => {}
                    }
                    let text = serde_json::to_string(&Value::Object(o)).unwrap();
                    ctx.in_json(&text, Some(&InMessage::AnnounceRequest(exp)), "optional-fields");
                }
            }
        }
    }
    for (text, exp) in [
        (json!({"action": "scrape"}).to_string(), ScrapeRequest { action: ScrapeAction::Scrape, info_hashes: None }),
        (json!({"action": "scrape", "info_hash": null}).to_string(), ScrapeRequest { action: ScrapeAction::Scrape, info_hashes: None }),
        (json!({"action": "scrape", "info_hash": ih}).to_string(), ScrapeRequest { action: ScrapeAction::Scrape, info_hashes: Some(ScrapeRequestInfoHashes::Single(InfoHash(id(1)))) }),
        (json!({"action": "scrape", "info_hash": []}).to_string(), ScrapeRequest { action: ScrapeAction::Scrape, info_hashes: Some(ScrapeRequestInfoHashes::Multiple(vec![])) }),
        (json!({"action": "scrape", "info_hash": [ih, pid]}).to_string(), ScrapeRequest { action: ScrapeAction::Scrape, info_hashes: Some(ScrapeRequestInfoHashes::Multiple(vec![InfoHash(id(1)), InfoHash(id(2))])) }),
    ] {
        ctx.in_json(&text, Some(&InMessage::ScrapeRequest(exp)), "scrape-shapes");
    }

    // ---- identifier strings of every length 0..=40 over {'a', 'é', 'Ā', '𝕊'}, raw and escaped
    for len in 0..=40usize {
        for c in ['a', 'é', 'Ā', '𝕊'] {
            for escaped in [false, true] {
                let s: String = std::iter::repeat(c).take(len).collect();
                let lit = if escaped {
                    let mut e = String::from("\"");
                    for ch in s.chars() {
                        let mut buf = [0u16; 2];
                        for u in ch.encode_utf16(&mut buf) {
                            e.push_str(&format!("\\u{:04x}", u));
                        }
                    }
                    e.push('"');
                    e
                } else {
                    serde_json::to_string(&s).unwrap()
                };
                let exp_id = id_string_ok(&s);
                // as peer_id of an announce, and as info_hash of a scrape
                let text = format!("{{\"action\":\"announce\",\"info_hash\":{},\"peer_id\":{},\"left\":1}}", serde_json::to_string(&ih).unwrap(), lit);
                let exp = exp_id.map(|p| InMessage::AnnounceRequest(AnnounceRequest { peer_id: PeerId(p), bytes_left: Some(1), event: None, ..base_announce() }));
                ctx.in_json(&text, exp.as_ref(), if exp_id.is_some() { "id-20-accepted" } else if len > 20 && (c as u32) <= 255 { "id-too-long-rejected" } else if len < 20 { "id-too-short-rejected" } else { "id-bad-char-rejected" });
                let text = format!("{{\"action\":\"scrape\",\"info_hash\":{}}}", lit);
                let exp = exp_id.map(|p| InMessage::ScrapeRequest(ScrapeRequest { action: ScrapeAction::Scrape, info_hashes: Some(ScrapeRequestInfoHashes::Single(InfoHash(p))) }));
                ctx.in_json(&text, exp.as_ref(), if exp_id.is_some() { "id-20-accepted" } else if len > 20 && (c as u32) <= 255 { "id-too-long-rejected" } else if len < 20 { "id-too-short-rejected" } else { "id-bad-char-rejected" });
            }
        }
    }
    // one out-of-range character at each position of an otherwise valid id
    for pos in 0..20 {
        for bad in ['Ā', '€', '𝕊'] {
            let mut cs: Vec<char> = ih.chars().collect();
            cs[pos] = bad;
            let s: String = cs.into_iter().collect();
            ctx.in_json(&json!({"action": "scrape", "info_hash": s}).to_string(), None, "id-bad-char-rejected");
        }
    }

    let (evals, distinct, kinds) = (ctx.evals, ctx.distinct.len() as u64, ctx.kinds.clone());
    run.set("evaluations", evals);
    run.set("distinct_nontrivial", distinct);
    run.set("outcome_kinds", json!(kinds));
    run.set("exhaustive", true);
    run.sample(json!({"announce_json": short(&InMessage::AnnounceRequest(base_announce()).to_ws_message().to_string())}));
    run.sample(json!({"too_long_id_json": format!("{{\"action\":\"scrape\",\"info_hash\":\"{}\"}}", "a".repeat(21))}));
    if kinds.len() < 12 && run.num_violation_signatures() == 0 {
        machinery_failure(&format!("vacuous: outcome kinds {:?}", kinds));
    }
    run.finish();
}
