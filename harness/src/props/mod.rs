pub mod c01;
