//! C04 — UDP shared swarm state is linearizable and deadlock-free (coop: all interleavings at
//! lock-operation granularity of small multi-thread programs over the real TorrentMaps).

use std::collections::{BTreeMap, BTreeSet, HashSet};
use std::net::IpAddr;
use std::sync::{Arc, Mutex};

use aquatic_common::{SecondsSinceServerStart, ValidUntil};
use aquatic_udp::swarm::TorrentMaps;
use serde::{Deserialize, Serialize};
use serde_json::json;

use crate::common::*;
use crate::coop::{self, ExecResult, Shared};
use crate::udp_sys::{key_addr, Kind, UdpWorld, WorldOpts, PROBE_KEY};

const CLEAN_NOW: u32 = 2;
const LIVE_DEADLINE: u32 = 10;

#[derive(Clone, Copy, Debug, Serialize, Deserialize, PartialEq, Eq, Hash, PartialOrd, Ord)]
pub enum Op {
    /// announce(hash, key, kind); key 100 = "this thread's own key"
    Ann(u8, u8, Kind),
    Scrape1(u8),
    Scrape2,
    Clean,
    /// scrape of two torrents in the given order (the torrents may live in different shards)
    ScrapeV(u8, u8),
}

/// a torrent in shard 1 (torrents 0 and 1 are in shard 0)
pub const X1: u8 = 0x81;

fn torrents_of(p: &Program) -> Vec<u8> {
    let mut v = vec![0u8, 1];
    for t in &p.threads {
        for o in t {
            match o {
                Op::Ann(h, _, _) | Op::Scrape1(h) => v.push(*h),
                Op::ScrapeV(a, b) => {
                    v.push(*a);
                    v.push(*b);
                }
                _ => {}
            }
        }
    }
    v.sort();
    v.dedup();
    v
}

pub const OWN: u8 = 100;
/// key of the final-state map under which a quiescent scrape / announce disagreement is recorded
const INCONSISTENT: u8 = 0x7f;

#[derive(Clone, Copy, Debug, Serialize, Deserialize, PartialEq, Eq, Hash, PartialOrd, Ord)]
pub enum Init {
    Empty,
    /// h0 has one peer (key 0) that clean(now) will expire
    OneExpiring,
    /// h0 has one live peer (key 0)
    OneLive,
    /// h0 has three peers (heap representation): key 0 live, keys 8 and 9 expiring
    ThreeTwoExpiring,
}

#[derive(Clone, Debug, Serialize, Deserialize, PartialEq, Eq, Hash)]
pub struct Program {
    pub init: Init,
    pub threads: Vec<Vec<Op>>,
}

/// per-torrent sequential state: key -> (seeder, deadline)
type TState = BTreeMap<u8, (bool, u32)>;

fn init_state(i: Init) -> BTreeMap<u8, TState> {
    let mut m: BTreeMap<u8, TState> = BTreeMap::new();
    match i {
        Init::Empty => {}
        Init::OneExpiring => {
            m.entry(0).or_default().insert(0, (false, 1));
        }
        Init::OneLive => {
            m.entry(0).or_default().insert(0, (true, LIVE_DEADLINE));
        }
        Init::ThreeTwoExpiring => {
            let t = m.entry(0).or_default();
            t.insert(0, (false, LIVE_DEADLINE));
            t.insert(8, (true, 1));
            t.insert(9, (false, 1));
        }
    }
    m
}

#[derive(Clone, Debug, PartialEq, Eq, Hash, Serialize)]
pub enum Obs {
    Ann { seeders: i32, leechers: i32, peers: BTreeSet<(IpAddr, u16)> },
    Scrape(Vec<(i32, i32)>),
    Clean,
    Panic(String),
}

#[derive(Clone, Debug, Serialize)]
pub struct Rec {
    pub tid: usize,
    pub idx: usize,
    pub op: Op,
    pub call: u64,
    pub ret: u64,
    pub obs: Obs,
}

fn own_key(tid: usize) -> u8 {
    1 + tid as u8
}

fn resolve_key(k: u8, tid: usize) -> u8 {
    if k == OWN {
        own_key(tid)
    } else {
        k
    }
}

fn build_world(init: Init) -> UdpWorld {
    let mut w = UdpWorld::new(WorldOpts { hashes: vec![0, 1], families: vec![true], stats_active: false, ..Default::default() });
    for (h, t) in init_state(init) {
        for (k, (seeder, dl)) in t {
            let vu = ValidUntil::new_raw(SecondsSinceServerStart::new_raw(dl));
            w.real_announce(h, k, if seeder { Kind::Seed } else { Kind::Leech }, k, 0, true, vu).unwrap();
        }
    }
    w
}

/// One execution under the controlled scheduler
pub fn execute(p: &Program, prefix: &[usize], all_points: bool) -> (ExecResult, Vec<Rec>, BTreeMap<u8, (i32, i32, BTreeSet<(IpAddr, u16)>)>) {
    let world = build_world(p.init);
    let dump = world.maps.verif_dump();
    let shard_locks: HashSet<usize> = dump.ipv4_shard_lock_addrs.iter().chain(dump.ipv6_shard_lock_addrs.iter()).cloned().collect();
    let torrents = torrents_of(p);
    let named_shards: HashSet<usize> = torrents.iter().map(|h| dump.ipv4_shard_lock_addrs[crate::udp_sys::hash_bytes(*h)[0] as usize % dump.ipv4_shard_lock_addrs.len()]).collect();
    let cleaners = p.threads.iter().filter(|t| t.contains(&Op::Clean)).count();
    let sl = shard_locks.clone();
    // footprint: a shard lock other than those of the torrents the program names (v4) is touched only by cleaning passes
    let shared_pred: Box<dyn Fn(usize) -> bool + Send> = Box::new(move |addr| all_points || !sl.contains(&addr) || named_shards.contains(&addr) || cleaners >= 2);
    let history: Arc<Mutex<Vec<Rec>>> = Arc::new(Mutex::new(Vec::new()));
    let maps: TorrentMaps = world.maps.clone();
    let mut bodies: Vec<Box<dyn FnOnce(usize, Arc<Shared>) + Send + 'static>> = Vec::new();
    for ops in p.threads.iter().cloned() {
        let maps = maps.clone();
        let history = history.clone();
        bodies.push(Box::new(move |tid, sh| {
            let mut w = UdpWorld::new(WorldOpts { hashes: vec![0, 1], families: vec![true], stats_active: false, rng_seed: 100 + tid as u64, ..Default::default() });
            w.maps = maps;
            for (idx, op) in ops.iter().enumerate() {
                let call = sh.next_seq();
                let r = std::panic::catch_unwind(std::panic::AssertUnwindSafe(|| match op {
                    Op::Ann(h, k, kind) => {
                        let vu = ValidUntil::new_raw(SecondsSinceServerStart::new_raw(LIVE_DEADLINE));
                        let k = resolve_key(*k, tid);
                        match w.real_announce(*h, k, *kind, k, 0, true, vu) {
                            Ok((s, l, peers, _)) => Obs::Ann { seeders: s, leechers: l, peers: peers.into_iter().collect() },
                            Err(e) => Obs::Panic(e),
                        }
                    }
                    Op::Scrape1(h) => Obs::Scrape(w.real_scrape(true, &[*h])),
                    Op::Scrape2 => Obs::Scrape(w.real_scrape(true, &[0, 1])),
                    Op::ScrapeV(a, b) => Obs::Scrape(w.real_scrape(true, &[*a, *b])),
                    Op::Clean => {
                        w.maps.clean_and_update_statistics(&w.config, &w.stats, &w.tx, &w.access, SecondsSinceServerStart::new_raw(CLEAN_NOW), false);
                        Obs::Clean
                    }
                }));
                let obs = r.unwrap_or_else(|e| Obs::Panic(panic_message(&e)));
                let ret = sh.next_seq();
                history.lock().unwrap().push(Rec { tid, idx, op: *op, call, ret, obs });
            }
        }));
    }
    let x = coop::run_once(bodies, shard_locks, shared_pred, prefix);
    let hist = history.lock().unwrap().clone();
    // quiescent final state (after all threads joined; no handler on this thread)
    let mut fin = BTreeMap::new();
    if x.deadlock.is_none() {
        let mut w = world;
        for h in torrents.iter().cloned() {
            let r = std::panic::catch_unwind(std::panic::AssertUnwindSafe(|| {
                let sc = w.real_scrape(true, &[h]);
                let vu = ValidUntil::new_raw(SecondsSinceServerStart::new_raw(LIVE_DEADLINE));
                let (s, l, peers, _) = w.real_announce(h, PROBE_KEY, Kind::Stop5, 0, 0, true, vu).unwrap();
                (sc, s, l, peers)
            }));
            match r {
                Ok((sc, s, l, peers)) => {
                    let set: BTreeSet<(IpAddr, u16)> = peers.into_iter().collect();
                    if sc != vec![(s, l)] {
                        fin.insert(INCONSISTENT, (sc[0].0, sc[0].1, BTreeSet::new()));
                    }
                    fin.insert(h, (s, l, set));
                }
                Err(_) => {
                    // the storage code panicked on a quiescent read: reported as an inconsistent final state
                    fin.insert(INCONSISTENT, (-1, -1, BTreeSet::new()));
                }
            }
        }
    }
    (x, hist, fin)
}

/// per-torrent atomic steps of an operation
#[derive(Clone, Debug)]
struct Step {
    rec: usize,
    /// expected observation extractor: (seeders, leechers, peers) for announce; (s, l) for a scrape read
    kind: StepKind,
    call: u64,
    ret: u64,
}

#[derive(Clone, Debug)]
enum StepKind {
    Ann { key: u8, status: Option<bool>, seeders: i32, leechers: i32, peers: BTreeSet<(IpAddr, u16)> },
    Read { s: i32, l: i32 },
    Expire,
}

fn apply_step(st: &mut TState, k: &StepKind) -> bool {
    match k {
        StepKind::Ann { key, status, seeders, leechers, peers } => {
            let others: Vec<(&u8, &(bool, u32))> = st.iter().filter(|(kk, _)| *kk != key).collect();
            let s = others.iter().filter(|(_, v)| v.0).count() as i32;
            let l = others.len() as i32 - s;
            let exp_peers: BTreeSet<(IpAddr, u16)> = others.iter().map(|(kk, _)| key_addr(true, **kk)).collect();
            if s != *seeders || l != *leechers || exp_peers != *peers {
                return false;
            }
            match status {
                None => {
                    st.remove(key);
                }
                Some(sd) => {
                    st.insert(*key, (*sd, LIVE_DEADLINE));
                }
            }
            true
        }
        StepKind::Read { s, l } => {
            let es = st.values().filter(|v| v.0).count() as i32;
            let el = st.len() as i32 - es;
            es == *s && el == *l
        }
        StepKind::Expire => {
            st.retain(|_, v| v.1 > CLEAN_NOW);
            true
        }
    }
}

/// Is there a sequential order of the per-torrent steps, consistent with real time, that explains all
/// replies and the final state?
fn linearizable(init: &TState, steps: &[Step], final_state: &(i32, i32, BTreeSet<(IpAddr, u16)>)) -> bool {
    fn rec(st: &TState, steps: &[Step], used: &mut Vec<bool>, fin: &(i32, i32, BTreeSet<(IpAddr, u16)>)) -> bool {
        if used.iter().all(|u| *u) {
            let s = st.values().filter(|v| v.0).count() as i32;
            let l = st.len() as i32 - s;
            let members: BTreeSet<(IpAddr, u16)> = st.keys().map(|k| key_addr(true, *k)).collect();
            return s == fin.0 && l == fin.1 && members == fin.2;
        }
        // minimal return time among unused steps: a step may go next only if it was called before that
        let min_ret = steps.iter().enumerate().filter(|(i, _)| !used[*i]).map(|(_, s)| s.ret).min().unwrap();
        for i in 0..steps.len() {
            if used[i] || steps[i].call > min_ret {
                continue;
            }
            let mut st2 = st.clone();
            if apply_step(&mut st2, &steps[i].kind) {
                used[i] = true;
                if rec(&st2, steps, used, fin) {
                    used[i] = false;
                    return true;
                }
                used[i] = false;
            }
        }
        false
    }
    let mut used = vec![false; steps.len()];
    rec(init, steps, &mut used, final_state)
}

pub fn check_execution(p: &Program, x: &ExecResult, hist: &[Rec], fin: &BTreeMap<u8, (i32, i32, BTreeSet<(IpAddr, u16)>)>) -> Vec<(String, String)> {
    let mut v = Vec::new();
    if let Some(d) = &x.deadlock {
        v.push(("coop/deadlock".to_string(), format!("deadlock: {}", d)));
        return v;
    }
    if let Some(i) = &x.inversion {
        v.push(("coop/lock-order-inversion".to_string(), i.clone()));
    }
    for r in hist {
        if let Obs::Panic(m) = &r.obs {
            v.push(("coop/panic".to_string(), format!("operation {:?} of thread {} panicked / gave a malformed reply: {}", r.op, r.tid, m)));
        }
    }
    if fin.contains_key(&INCONSISTENT) {
        v.push(("coop/final-state-inconsistent".to_string(), "quiescent scrape and announce counts disagree".into()));
    }
    let init = init_state(p.init);
    for h in torrents_of(p) {
        let mut steps: Vec<Step> = Vec::new();
        for (ri, r) in hist.iter().enumerate() {
            match (&r.op, &r.obs) {
                (Op::Ann(hh, k, kind), Obs::Ann { seeders, leechers, peers }) if *hh == h => {
                    steps.push(Step { rec: ri, kind: StepKind::Ann { key: resolve_key(*k, r.tid), status: kind.status(), seeders: *seeders, leechers: *leechers, peers: peers.clone() }, call: r.call, ret: r.ret })
                }
                (Op::Scrape1(hh), Obs::Scrape(c)) if *hh == h => steps.push(Step { rec: ri, kind: StepKind::Read { s: c[0].0, l: c[0].1 }, call: r.call, ret: r.ret }),
                (Op::Scrape2, Obs::Scrape(c)) => steps.push(Step { rec: ri, kind: StepKind::Read { s: c[h as usize].0, l: c[h as usize].1 }, call: r.call, ret: r.ret }),
                (Op::ScrapeV(a, b), Obs::Scrape(c)) => {
                    for (pos, hh) in [a, b].iter().enumerate() {
                        if **hh == h {
                            steps.push(Step { rec: ri, kind: StepKind::Read { s: c[pos].0, l: c[pos].1 }, call: r.call, ret: r.ret });
                        }
                    }
                }
                (Op::Clean, Obs::Clean) => steps.push(Step { rec: ri, kind: StepKind::Expire, call: r.call, ret: r.ret }),
                _ => {}
            }
        }
        let st0 = init.get(&h).cloned().unwrap_or_default();
        let f = fin.get(&h).cloned().unwrap_or((0, 0, BTreeSet::new()));
        if !linearizable(&st0, &steps, &f) {
            let _ = steps.iter().map(|s| s.rec).count();
            v.push((
                "coop/not-linearizable".to_string(),
                format!(
                    "torrent {}: no sequential order of the operations explains the replies and the final state. history (call/return order): {:?}; final (seeders, leechers, members) = {:?}",
                    h,
                    hist.iter().map(|r| format!("T{}#{} {:?} [{}..{}] -> {:?}", r.tid, r.idx, r.op, r.call, r.ret, r.obs)).collect::<Vec<_>>(),
                    f
                ),
            ));
        }
    }
    v
}

fn outcome_fp(hist: &[Rec], fin: &BTreeMap<u8, (i32, i32, BTreeSet<(IpAddr, u16)>)>) -> u64 {
    let mut obs: Vec<(usize, usize, &Obs)> = hist.iter().map(|r| (r.tid, r.idx, &r.obs)).collect();
    obs.sort_by_key(|x| (x.0, x.1));
    fp64(&(format!("{:?}", obs), format!("{:?}", fin)))
}

pub struct ProgramResult {
    pub program: Program,
    pub schedules: u64,
    pub points: u64,
    pub outcomes: usize,
    pub max_choice_points: usize,
    pub max_preemptions_for_new_outcome: usize,
    pub cap_hit: bool,
    pub violations: Vec<(Vec<usize>, String, String)>,
}

pub fn explore_program(p: &Program, bound: Option<usize>, all_points: bool, cap: u64) -> ProgramResult {
    let (stats, violations) = coop::explore(
        |prefix| {
            let (x, hist, fin) = execute(p, prefix, all_points);
            let viols = check_execution(p, &x, &hist, &fin);
            let fp = outcome_fp(&hist, &fin);
            (x, fp, viols)
        },
        bound,
        cap,
    );
    ProgramResult {
        program: p.clone(),
        schedules: stats.schedules,
        points: stats.points,
        outcomes: stats.outcomes.len(),
        max_choice_points: stats.max_choice_points,
        max_preemptions_for_new_outcome: stats.outcomes.values().cloned().max().unwrap_or(0),
        cap_hit: stats.cap_hit,
        violations,
    }
}

fn op_alphabet() -> Vec<Op> {
    vec![
        Op::Ann(0, OWN, Kind::Leech),
        Op::Ann(0, OWN, Kind::Seed),
        Op::Ann(0, OWN, Kind::Stop5),
        Op::Ann(0, 0, Kind::Leech),
        Op::Ann(0, 0, Kind::Stop5),
        Op::Ann(1, OWN, Kind::Leech),
        Op::Scrape1(0),
        Op::Scrape2,
        Op::Clean,
    ]
}

fn inits() -> Vec<Init> {
    vec![Init::Empty, Init::OneExpiring, Init::OneLive, Init::ThreeTwoExpiring]
}

/// programs (deduplicated up to exchanging threads) with the preemption bound each is explored under
/// (None = every interleaving)
pub fn programs(tier: Tier) -> Vec<(Program, Option<usize>)> {
    let ops = op_alphabet();
    let seqs1: Vec<Vec<Op>> = ops.iter().map(|o| vec![*o]).collect();
    let mut seqs2: Vec<Vec<Op>> = Vec::new();
    for a in &ops {
        for b in &ops {
            seqs2.push(vec![*a, *b]);
        }
    }
    let mut out: Vec<(Program, Option<usize>)> = Vec::new();
    let mut seen: HashSet<(Init, Vec<Vec<Op>>)> = HashSet::new();
    let mut push = |init: Init, threads: Vec<Vec<Op>>, bound: Option<usize>| {
        // exchanging threads renames own keys only
        let mut canon = threads.clone();
        canon.sort();
        if seen.insert((init, canon)) {
            out.push((Program { init, threads }, bound));
        }
    };
    let th = tier.thorough();
    for init in inits() {
        // (A) all 2-thread programs with one operation each: every interleaving
        for a in &seqs1 {
            for b in &seqs1 {
                if a[0] == Op::Clean && b[0] == Op::Clean {
                    continue; // two cleaning passes: bounded mode with every lock operation a choice point
                }
                push(init, vec![a.clone(), b.clone()], None);
            }
        }
        // (B) 3-thread programs with one operation each: preemption-bounded
        for a in &seqs1 {
            for b in &seqs1 {
                for c in &seqs1 {
                    let t = vec![a.clone(), b.clone(), c.clone()];
                    let n_clean = t.iter().filter(|x| x[0] == Op::Clean).count();
                    if n_clean >= 2 {
                        continue; // two cleaning passes: bounded mode with every lock operation a choice point
                    }
                    if n_clean == 1 || th {
                        push(init, t, Some(if th { 3 } else { 2 }));
                    }
                }
            }
        }
        // (C) 2-thread programs with two operations in one or both threads
        for a in &seqs2 {
            for b in seqs1.iter().chain(if th { seqs2.iter() } else { [].iter() }) {
                let n_clean = a.iter().chain(b.iter()).filter(|o| **o == Op::Clean).count();
                let cleaners = [a, b].iter().filter(|t| t.contains(&Op::Clean)).count();
                if cleaners >= 2 {
                    continue;
                }
                if !th && n_clean == 0 {
                    continue;
                }
                let bound = if th { if b.len() == 1 && n_clean >= 1 { None } else { Some(2) } } else { Some(1) };
                push(init, vec![a.clone(), b.clone()], bound);
            }
        }
    }
    out
}

/// programs whose operations span two shards: scrapes naming a shard-0 and a shard-1 torrent in either order next to announces that
/// insert never-seen torrents into those shards (shard lock upgraded to a writer) and cleaning passes. Four threads are what a cycle
/// "reader of shard A waits behind a writer that waits for a reader of shard B that waits behind a writer that waits for the first
/// reader" needs. Explored with every lock operation of the named shards a choice point, under the preemption bound.
pub fn cross_shard_programs(tier: Tier) -> Vec<(Program, usize)> {
    let b = if tier.thorough() { 3 } else { 2 };
    let s01 = vec![Op::ScrapeV(0, X1)];
    let s10 = vec![Op::ScrapeV(X1, 0)];
    let a0 = vec![Op::Ann(0, OWN, Kind::Leech)];
    let a1 = vec![Op::Ann(1, OWN, Kind::Leech)];
    let ax = vec![Op::Ann(X1, OWN, Kind::Seed)];
    let cl = vec![Op::Clean];
    let mut v = Vec::new();
    for init in [Init::Empty, Init::OneLive, Init::OneExpiring] {
        v.push((Program { init, threads: vec![s01.clone(), s10.clone(), a0.clone(), ax.clone()] }, b));
        v.push((Program { init, threads: vec![s01.clone(), s10.clone(), a1.clone(), ax.clone()] }, b));
        v.push((Program { init, threads: vec![s01.clone(), s10.clone(), cl.clone(), ax.clone()] }, b));
        v.push((Program { init, threads: vec![s01.clone(), s10.clone(), ax.clone()] }, b));
        v.push((Program { init, threads: vec![s01.clone(), a0.clone(), ax.clone()] }, b));
        v.push((Program { init, threads: vec![s10.clone(), cl.clone(), ax.clone()] }, b));
        v.push((Program { init, threads: vec![s10.clone(), s01.clone(), cl.clone()] }, b));
        v.push((Program { init, threads: vec![vec![Op::ScrapeV(0, X1), Op::ScrapeV(X1, 1)], vec![Op::Ann(X1, OWN, Kind::Leech), Op::Ann(1, OWN, Kind::Seed)]] }, b));
    }
    v
}

/// programs with two concurrent cleaning passes: every lock operation of all 32 shards is a choice point
pub fn two_cleaner_programs() -> Vec<Program> {
    let mut v = Vec::new();
    for init in [Init::OneExpiring, Init::ThreeTwoExpiring] {
        v.push(Program { init, threads: vec![vec![Op::Clean], vec![Op::Clean]] });
        v.push(Program { init, threads: vec![vec![Op::Clean], vec![Op::Clean], vec![Op::Ann(0, OWN, Kind::Leech)]] });
    }
    v
}

/// free-running stress (labelled sampling; sound oracle): same bodies without the baton
fn stress(run: &mut Run, threads: usize, ops_per_thread: usize, seed: u64) {
    use rand::{RngExt, SeedableRng};
    let world = build_world(Init::Empty);
    let maps = world.maps.clone();
    let stop_errors: Arc<Mutex<Vec<String>>> = Arc::new(Mutex::new(Vec::new()));
    std::thread::scope(|s| {
        for tid in 0..threads {
            let maps = maps.clone();
            let errs = stop_errors.clone();
            s.spawn(move || {
                let mut w = UdpWorld::new(WorldOpts { hashes: vec![0, 1], families: vec![true], stats_active: false, rng_seed: seed + tid as u64, ..Default::default() });
                w.maps = maps;
                let mut rng = rand::rngs::SmallRng::seed_from_u64(seed * 31 + tid as u64);
                let key = 10 + tid as u8;
                for i in 0..ops_per_thread {
                    let h = (rng.random_range(0..4u32) as u8) % 2;
                    match rng.random_range(0..10u32) {
                        0 => w.maps.clean_and_update_statistics(&w.config, &w.stats, &w.tx, &w.access, SecondsSinceServerStart::new_raw(CLEAN_NOW), false),
                        1 | 2 => {
                            let _ = w.real_scrape(true, &[0, 1]);
                        }
                        x => {
                            let kind = if x < 5 { Kind::Stop5 } else if x < 8 { Kind::Leech } else { Kind::Seed };
                            let vu = ValidUntil::new_raw(SecondsSinceServerStart::new_raw(LIVE_DEADLINE));
                            match w.real_announce(h, key, kind, key, 0, true, vu) {
                                Ok((_, _, peers, _)) => {
                                    // own key never returned; own entry is present right after a non-stop announce (only this thread touches it)
                                    if peers.contains(&key_addr(true, key)) {
                                        errs.lock().unwrap().push(format!("thread {} op {}: own key in reply", tid, i));
                                    }
                                    if kind.status().is_some() {
                                        let vu = ValidUntil::new_raw(SecondsSinceServerStart::new_raw(LIVE_DEADLINE));
                                        let (_, _, peers2, _) = w.real_announce(h, 200 + tid as u8, Kind::Stop5, 0, 0, true, vu).unwrap();
                                        if !peers2.contains(&key_addr(true, key)) {
                                            errs.lock().unwrap().push(format!("thread {} op {}: answered announce lost (own live entry not handed out)", tid, i));
                                        }
                                    }
                                }
                                Err(e) => errs.lock().unwrap().push(e),
                            }
                        }
                    }
                }
            });
        }
    });
    let errs = stop_errors.lock().unwrap();
    if let Some(e) = errs.first() {
        run.violation("coop/stress", format!("free-running stress: {} ({} errors)", e, errs.len()), json!({"engine": "stress", "seed": seed}));
    }
}

pub fn main(args: &Args) -> ! {
    if let Some(n) = std::env::var("AQV_C04_LITMUS").ok().and_then(|s| s.parse::<usize>().ok()) {
        let rep = crate::lock_litmus::explore(n, 64);
        println!("litmus {} threads: states={} transitions={} depth={} blocked_observations={} ambiguous={} reruns={} discrepancies={:?}", n, rep.states, rep.transitions, rep.max_depth, rep.blocked_observations, rep.ambiguous, rep.reruns, rep.discrepancies.iter().take(3).collect::<Vec<_>>());
        std::process::exit(0);
    }
    let mut run = Run::new(args, "model_checking");
    run.set("engine", "coop: baton scheduler over real OS threads, scheduling points at every acquire / upgrade / release of aquatic_udp::swarm's RwLocks (hook H3), mirror lock table with parking_lot's rules, stateless DFS with prefix replay");
    run.assume("sequential consistency (the baton serialises everything); weak-memory reorderings are outside this check");
    run.assume("the mirror lock table (reader / upgradable / writer compatibility, writer bit claimed before readers drain) stands in for parking_lot inside the scheduler; it is validated against the real lock by the lock litmus (every reachable state of one lock and 2-3 threads, thorough 4; every transition executed on real threads), with 25 ms as the observation that a call is blocked");
    run.assume("footprint reduction: a shard lock only one thread can touch is not a choice point (asserted at run time; commuting operations)");

    if let Some(p) = &args.replay {
        let r = load_replay(p);
        let d = &r["detail"];
        if d["engine"] == "stress" {
            stress(&mut run, 8, 20_000, d["seed"].as_u64().unwrap_or(0));
            run.set("states", 1);
            run.set("transitions", 1);
            run.set("traces_validated_against_impl", 1);
            run.finish();
        }
        let prog: Program = serde_json::from_value(d["program"].clone()).unwrap_or_else(|e| machinery_failure(&format!("bad program: {}", e)));
        let sched: Vec<usize> = serde_json::from_value(d["schedule"].clone()).unwrap_or_default();
        let all_points = d["all_points"].as_bool().unwrap_or(false);
        // replay twice: identical observations required
        let (x1, h1, f1) = execute(&prog, &sched, all_points);
        let (_x2, h2, f2) = execute(&prog, &sched, all_points);
        if outcome_fp(&h1, &f1) != outcome_fp(&h2, &f2) {
            machinery_failure("replay is not deterministic");
        }
        for (sig, what) in check_execution(&prog, &x1, &h1, &f1) {
            run.violation(sig, what, d.clone());
        }
        run.set("states", 1);
        run.set("transitions", x1.choices.len());
        run.set("traces_validated_against_impl", 1);
        run.finish();
    }

    if args.extra.iter().any(|a| a == "--probe") {
        for p in [
            Program { init: Init::OneExpiring, threads: vec![vec![Op::Clean], vec![Op::Ann(0, OWN, Kind::Leech)]] },
            Program { init: Init::OneExpiring, threads: vec![vec![Op::Clean], vec![Op::Ann(0, OWN, Kind::Leech)], vec![Op::Scrape1(0)]] },
            Program { init: Init::OneLive, threads: vec![vec![Op::Ann(0, 0, Kind::Stop5), Op::Clean], vec![Op::Ann(0, OWN, Kind::Leech)]] },
        ] {
            for bound in [None, Some(1), Some(2)] {
                let t = std::time::Instant::now();
                let r = explore_program(&p, bound, false, 300_000);
                eprintln!("probe {:?} bound={:?}: schedules={} points={} outcomes={} maxcp={} cap={} viol={} t={:.2}s", p.threads, bound, r.schedules, r.points, r.outcomes, r.max_choice_points, r.cap_hit, r.violations.len(), t.elapsed().as_secs_f64());
            }
        }
        std::process::exit(0);
    }
    let progs = programs(args.tier);
    let cap: u64 = if args.tier.thorough() { 400_000 } else { 40_000 };
    let threads = num_threads();
    let t0 = std::time::Instant::now();
    let budget = if args.tier.thorough() { 6000.0 } else { 200.0 };
    let results: Vec<Option<ProgramResult>> = par_map(&progs, threads, |(p, bound)| {
        if t0.elapsed().as_secs_f64() > budget {
            return None;
        }
        Some(explore_program(p, *bound, false, cap))
    });
    let unbounded_programs = progs.iter().filter(|(_, b)| b.is_none()).count();
    let bounded_programs = progs.len() - unbounded_programs;
    let mut schedules = 0u64;
    let mut points = 0u64;
    let mut outcomes = 0u64;
    let mut caps = 0u64;
    let mut done = 0u64;
    let mut skipped = 0u64;
    let mut max_pre = 0usize;
    let mut max_cp = 0usize;
    let mut multi_outcome_programs = 0u64;
    for r in results.iter() {
        match r {
            None => skipped += 1,
            Some(r) => {
                done += 1;
                schedules += r.schedules;
                points += r.points;
                outcomes += r.outcomes as u64;
                if r.outcomes > 1 {
                    multi_outcome_programs += 1;
                }
                if r.cap_hit {
                    caps += 1;
                }
                max_pre = max_pre.max(r.max_preemptions_for_new_outcome);
                max_cp = max_cp.max(r.max_choice_points);
                for (sched, sig, what) in &r.violations {
                    // determinism: replay twice
                    let (_, h1, f1) = execute(&r.program, sched, false);
                    let (_, h2, f2) = execute(&r.program, sched, false);
                    if outcome_fp(&h1, &f1) != outcome_fp(&h2, &f2) {
                        machinery_failure("violating schedule does not replay deterministically");
                    }
                    run.violation(sig.clone(), format!("{} [program {:?}, schedule of {} choices]", what, r.program, sched.len()), json!({"engine": "coop", "program": r.program, "schedule": sched, "all_points": false, "signature": sig}));
                }
                if run.want_sample() && r.outcomes > 1 {
                    run.sample(json!({"program": r.program, "schedules": r.schedules, "distinct_outcomes": r.outcomes, "max_choice_points": r.max_choice_points}));
                }
            }
        }
    }
    eprintln!("[C04] full mode: programs={} done={} skipped={} schedules={} points={} caps={} t={:.1}s", progs.len(), done, skipped, schedules, points, caps, run.elapsed());

    // bounded mode: every lock operation is a choice point; two concurrent cleaning passes; preemption bound iterated
    let tc = two_cleaner_programs();
    let max_bound = if args.tier.thorough() { 2 } else { 1 };
    let mut bounded_schedules = 0u64;
    let mut bound_completed = 0usize;
    for b in 0..=max_bound {
        let res: Vec<ProgramResult> = par_map(&tc, threads, |p| explore_program(p, Some(b), true, cap));
        let mut capped = false;
        for r in &res {
            bounded_schedules += r.schedules;
            points += r.points;
            capped |= r.cap_hit;
            for (sched, sig, what) in &r.violations {
                run.violation(sig.clone(), format!("{} [program {:?}, preemption bound {}]", what, r.program, b), json!({"engine": "coop", "program": r.program, "schedule": sched, "all_points": true, "signature": sig}));
            }
        }
        if !capped {
            bound_completed = b;
        }
        eprintln!("[C04] bounded mode: bound={} schedules so far={} capped={} t={:.1}s", b, bounded_schedules, capped, run.elapsed());
    }
    // cross-shard family
    let xs = cross_shard_programs(args.tier);
    let xres: Vec<ProgramResult> = par_map(&xs, threads, |(p, b)| explore_program(p, Some(*b), false, cap));
    let mut cross_shard_schedules = 0u64;
    let mut cross_shard_multi = 0u64;
    for r in &xres {
        cross_shard_schedules += r.schedules;
        points += r.points;
        outcomes += r.outcomes as u64;
        if r.outcomes > 1 {
            cross_shard_multi += 1;
        }
        if r.cap_hit {
            caps += 1;
        }
        max_cp = max_cp.max(r.max_choice_points);
        for (sched, sig, what) in &r.violations {
            let (_, h1, f1) = execute(&r.program, sched, false);
            let (_, h2, f2) = execute(&r.program, sched, false);
            if outcome_fp(&h1, &f1) != outcome_fp(&h2, &f2) {
                machinery_failure("violating schedule does not replay deterministically");
            }
            run.violation(sig.clone(), format!("{} [program {:?}, schedule of {} choices]", what, r.program, sched.len()), json!({"engine": "coop", "program": r.program, "schedule": sched, "all_points": false, "signature": sig}));
        }
    }
    if cross_shard_multi == 0 {
        machinery_failure("vacuous: no cross-shard program showed more than one outcome");
    }
    run.set("cross_shard_programs", xs.len() as u64);
    run.set("cross_shard_schedules", cross_shard_schedules);
    run.set("cross_shard_preemption_bound", if args.tier.thorough() { 3 } else { 2 });
    eprintln!("[C04] cross-shard family: programs={} schedules={} multi-outcome={} t={:.1}s", xs.len(), cross_shard_schedules, cross_shard_multi, run.elapsed());

    // cross-check of the footprint reduction on a few full-mode programs: same outcome sets with every lock operation a choice point
    let cross: Vec<Program> = progs.iter().map(|(p, _)| p).filter(|p| p.threads.len() == 2 && p.threads.iter().all(|t| t.len() == 1) && p.threads.iter().any(|t| t[0] == Op::Clean)).take(if args.tier.thorough() { 24 } else { 6 }).cloned().collect();
    let cross_res: Vec<(usize, usize, bool)> = par_map(&cross, threads, |p| {
        let a = explore_program(p, None, false, cap);
        let b = explore_program(p, Some(2), true, cap);
        (a.outcomes, b.outcomes, b.cap_hit)
    });
    let mut cross_ok = 0;
    for ((a, b, capped), p) in cross_res.iter().zip(cross.iter()) {
        if *capped {
            continue;
        }
        if b > a {
            machinery_failure(&format!("footprint reduction lost outcomes for {:?}: {} reduced vs {} with every lock operation (bound 2)", p, a, b));
        }
        cross_ok += 1;
    }

    // ---- the scheduler's picture of the lock, validated against the real lock on free-running threads
    {
        let mut total = (0u64, 0u64, 0u64, 0u64, 0u64);
        let mut summary = Vec::new();
        let thread_counts: &[usize] = if args.tier.thorough() { &[2, 3, 4] } else { &[2, 3] };
        for &n in thread_counts {
            let rep = crate::lock_litmus::explore(n, 64);
            if let Some((seq, what)) = rep.discrepancies.first() {
                machinery_failure(&format!("mirror lock table disagrees with the real RwLock ({} threads) on sequence {:?}: {} ({} discrepancies in all)", n, seq, what, rep.discrepancies.len()));
            }
            if rep.blocked_observations == 0 {
                machinery_failure("lock litmus vacuous: no call was ever observed blocked");
            }
            total = (total.0 + rep.states, total.1 + rep.transitions, total.2 + rep.blocked_observations, total.3 + rep.ambiguous, total.4 + rep.reruns);
            summary.push(format!("{} threads: {} states, {} transitions run on the real lock, depth {}, {} blocked-call observations, {} unobservable (skipped)", n, rep.states, rep.transitions, rep.max_depth, rep.blocked_observations, rep.ambiguous));
        }
        run.set("lock_model_conformance", summary.join("; "));
        run.set("lock_model_states", total.0);
        run.set("lock_model_transitions_validated_against_real_lock", total.1);
        run.set("lock_model_blocked_call_observations", total.2);
        run.set("lock_model_sequences_rerun_with_long_waits", total.4);
    }

    if args.tier.thorough() {
        // separate free-running pass under ThreadSanitizer (unsynchronised accesses are invisible to a cooperative scheduler)
        match std::process::Command::new("/verif/tools/tsan.sh").arg("6").arg("4000").output() {
            Ok(o) => {
                let out = String::from_utf8_lossy(&o.stdout).to_string();
                if let Some(l) = out.lines().find(|l| l.starts_with("TSAN-RACES ")) {
                    let n: u64 = l["TSAN-RACES ".len()..].trim().parse().unwrap_or(0);
                    run.set("tsan_pass", format!("built with -Zsanitizer=thread, 6 threads x 4000 operations free-running: {} data race reports", n));
                    if n > 0 {
                        run.violation("coop/tsan-data-race", format!("ThreadSanitizer reports {} data race(s) in the free-running stress: {}", n, out.lines().skip(1).collect::<Vec<_>>().join(" | ")), json!({"engine": "tsan"}));
                    }
                } else {
                    run.set("tsan_pass", format!("not available: {}", out.trim()));
                }
            }
            Err(e) => run.set("tsan_pass", format!("not available: {}", e)),
        }
        stress(&mut run, 8, 20_000, args.seed);
        run.set("stress", "8 threads x 20000 operations free-running (sampling, labelled; sound oracle: own live entry is handed out after an answered announce)");
    }

    run.set("programs", progs.len() as u64 + tc.len() as u64 + xs.len() as u64);
    run.set("programs_explored_full_mode", done);
    run.set("programs_every_interleaving", unbounded_programs);
    run.set("programs_preemption_bounded", bounded_programs);
    run.set("preemption_bounds", if args.tier.thorough() { "3-thread programs: 3; 2x2-operation programs: 2 (with a cleaning pass and a single-operation second thread: unbounded)" } else { "3-thread programs: 2; 2-operation programs: 1" });
    run.set("programs_skipped_time_budget", skipped);
    run.set("states", schedules + bounded_schedules + cross_shard_schedules);
    run.set("schedules_full_mode", schedules);
    run.set("schedules_bounded_mode", bounded_schedules);
    run.set("preemption_bound_completed_bounded_mode", bound_completed);
    run.set("transitions", points);
    run.set("traces_validated_against_impl", schedules + bounded_schedules + cross_shard_schedules);
    run.set("distinct_outcomes_total", outcomes);
    run.set("programs_with_more_than_one_outcome", multi_outcome_programs);
    run.set("max_preemptions_needed_for_a_new_outcome", max_pre);
    run.set("max_choice_points", max_cp);
    run.set("programs_capped", caps);
    run.set("reduction_cross_checked_programs", cross_ok);
    run.set("exhaustive", caps == 0 && skipped == 0);
    if multi_outcome_programs == 0 {
        machinery_failure("vacuous: no program showed more than one outcome");
    }
    run.finish();
}
