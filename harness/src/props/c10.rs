//! C10 — Peers and offers expire exactly at their deadline, never earlier (seqmc, all three trackers).

use aquatic_common::{SecondsSinceServerStart, ValidUntil};
use serde_json::json;

use crate::common::*;
use crate::http_sys::HttpSys;
use crate::seqmc::{self, Limits};
use crate::udp_sys::*;
use crate::ws_sys::*;

fn udp_systems(tier: Tier) -> Vec<(UdpSys, Limits, bool)> {
    let th = num_threads();
    let wall = if tier.thorough() { 900.0 } else { 60.0 };
    vec![
        (
            UdpSys(Alphabet {
                name: "udp-time-3keys",
                opts: WorldOpts { hashes: vec![0], families: vec![true], ..Default::default() },
                keys: 3,
                kinds: vec![Kind::Leech, Kind::Seed],
                pids: None,
                ages: if tier.thorough() { vec![1, 2, 3] } else { vec![1, 2] },
                lags: vec![0, 1],
                numwants: vec![0],
                scrapes: vec![],
                clock_max: if tier.thorough() { 5 } else { 4 },
                reloads: vec![],
                clean: true,
            }),
            Limits { max_depth: 64, max_states: 5_000_000, max_wall_s: wall, threads: th },
            true,
        ),
        (
            UdpSys(Alphabet {
                name: "udp-time-v6-1key",
                opts: WorldOpts { hashes: vec![0], families: vec![false], ..Default::default() },
                keys: 1,
                kinds: vec![Kind::Leech, Kind::Seed, Kind::Stop0],
                pids: None,
                ages: vec![1, 2, 3],
                lags: vec![0, 1, 2],
                numwants: vec![0],
                scrapes: vec![],
                clock_max: 6,
                reloads: vec![],
                clean: true,
            }),
            Limits { max_depth: 64, max_states: 5_000_000, max_wall_s: wall, threads: th },
            true,
        ),
        (
            // IPv4 hosts served through the dual-stack IPv6 socket alone: the IPv4 maps are in use with `use_ipv4 = false`
            UdpSys(Alphabet {
                name: "udp-time-v6-socket-serves-v4",
                opts: WorldOpts { hashes: vec![0], families: vec![true, false], v6_socket_serves_v4: true, ..Default::default() },
                keys: 1,
                kinds: vec![Kind::Leech, Kind::Seed, Kind::Stop0],
                pids: None,
                ages: vec![1, 2],
                lags: vec![0, 1],
                numwants: vec![0],
                scrapes: vec![],
                clock_max: 4,
                reloads: vec![],
                clean: true,
            }),
            Limits { max_depth: 64, max_states: 5_000_000, max_wall_s: wall, threads: th },
            true,
        ),
    ]
}

fn http_systems(tier: Tier) -> Vec<(HttpSys, Limits, bool)> {
    let th = num_threads();
    let wall = if tier.thorough() { 900.0 } else { 60.0 };
    vec![(
        HttpSys {
            a: Alphabet {
                name: "http-time-5keys",
                opts: WorldOpts { hashes: vec![0], families: vec![true], ..Default::default() },
                keys: 5,
                kinds: vec![Kind::Leech, Kind::Seed],
                pids: None,
                ages: vec![1, 2],
                lags: vec![0, 1],
                numwants: vec![-1],
                scrapes: vec![],
                clock_max: if tier.thorough() { 4 } else { 3 },
                reloads: vec![],
                clean: true,
            },
            max_scrape: 100,
            order_free_key: true,
        },
        Limits { max_depth: if tier.thorough() { 64 } else { 8 }, max_states: 5_000_000, max_wall_s: wall, threads: th },
        tier.thorough(),
    ),
    (
        HttpSys {
            a: Alphabet {
                name: "http-time-1key",
                opts: WorldOpts { hashes: vec![0], families: vec![true, false], ..Default::default() },
                keys: 1,
                kinds: vec![Kind::Leech, Kind::Seed, Kind::Stop0],
                pids: None,
                ages: vec![1, 2, 3],
                lags: vec![0, 1],
                numwants: vec![-1],
                scrapes: vec![],
                clock_max: 6,
                reloads: vec![],
                clean: true,
            },
            max_scrape: 100,
            order_free_key: false,
        },
        Limits { max_depth: 64, max_states: 5_000_000, max_wall_s: wall, threads: th },
        true,
    )]
}

fn ws_systems(tier: Tier) -> Vec<(WsSys, Limits, bool)> {
    let th = num_threads();
    let wall = if tier.thorough() { 900.0 } else { 60.0 };
    let mut v = Vec::new();
    for (name, peer_age, offer_age) in [("ws-time-age1-offer1", 1u32, 1u32), ("ws-time-age2-offer1", 2, 1), ("ws-time-age3-offer2", 3, 2)] {
        v.push((
            WsSys(WsAlphabet {
                name,
                opts: WsOpts { conns: vec![(0, K1, true), (1, K1, true)], hashes: vec![0], max_offers: 1, max_peer_age: peer_age, max_offer_age: offer_age, ..Default::default() },
                peers: 2,
                peer_is_conn: true,
                kinds: vec![WsKind::Leech, WsKind::Seed],
                offer_sets: vec![vec![1]],
                answers: vec![(0, 1), (1, 1)],
                scrapes: vec![],
                clock_max: peer_age + 3,
                clean: true,
                closes: false,
                reloads: vec![],
            }),
            Limits { max_depth: 64, max_states: 5_000_000, max_wall_s: wall, threads: th },
            true,
        ));
    }
    v
}

/// `ValidUntil::valid` directly, for all (deadline, now) in [0,8]^2 and the u32 extremes
fn valid_until_grid(run: &mut Run) {
    let mut vals: Vec<u32> = (0..=8).collect();
    vals.extend([u32::MAX - 1, u32::MAX, 1 << 31]);
    let mut n = 0;
    for d in &vals {
        for now in &vals {
            n += 1;
            let got = ValidUntil::new_raw(SecondsSinceServerStart::new_raw(*d)).valid(SecondsSinceServerStart::new_raw(*now));
            let exp = *d > *now;
            if got != exp {
                run.violation("validuntil/grid", format!("ValidUntil({}).valid({}) = {}, an entry must be valid exactly while clock < deadline", d, now, got), json!({"engine":"grid","deadline":d,"now":now}));
            }
        }
    }
    for now in 0..=8u32 {
        for age in 0..=4u32 {
            n += 1;
            let vu = ValidUntil::new_with_now(SecondsSinceServerStart::new_raw(now), age);
            for t in 0..=14u32 {
                let got = vu.valid(SecondsSinceServerStart::new_raw(t));
                if got != (t < now + age) {
                    run.violation("validuntil/new_with_now", format!("deadline from sample {} + age {} valid at {} = {}", now, age, t, got), json!({"engine":"grid","now":now,"age":age,"t":t}));
                }
            }
        }
    }
    run.set("validuntil_grid_cases", n);
    run.add("compared_calls", n);
}

pub fn main(args: &Args) -> ! {
    let mut run = Run::new(args, "model_checking");
    run.set("engine", "seqmc with time-focused alphabets on the UDP, HTTP and WS storages (announce at every time, several maximum ages, stale worker samples, clean at every time incl. deadline-1 / deadline / deadline+1)");
    run.set("exhaustive", true);
    run.assume("mock clock never goes backwards (monotonicity-error branches not exercised); the socket workers' sampling cadence is read, not explored");
    if let Some(p) = &args.replay {
        let r = load_replay(p);
        let u: Vec<UdpSys> = udp_systems(Tier::Thorough).into_iter().map(|x| x.0).collect();
        let h: Vec<HttpSys> = http_systems(Tier::Thorough).into_iter().map(|x| x.0).collect();
        let w: Vec<WsSys> = ws_systems(Tier::Thorough).into_iter().map(|x| x.0).collect();
        if r["detail"]["engine"] == "grid" {
            valid_until_grid(&mut run);
            run.set("states", 1);
            run.set("transitions", 1);
            run.set("traces_validated_against_impl", 1);
        } else if !(seqmc::replay_from_file(&mut run, &r, &u) || seqmc::replay_from_file(&mut run, &r, &h) || seqmc::replay_from_file(&mut run, &r, &w)) {
            machinery_failure("replay file does not belong to this check");
        }
        run.finish();
    }
    valid_until_grid(&mut run);
    for (s, lim, nf) in udp_systems(args.tier) {
        seqmc::run_bfs(&mut run, &s, &lim, nf);
    }
    for (s, lim, nf) in http_systems(args.tier) {
        seqmc::run_bfs(&mut run, &s, &lim, nf);
    }
    for (s, lim, nf) in ws_systems(args.tier) {
        seqmc::run_bfs(&mut run, &s, &lim, nf);
    }
    run.finish();
}
