//! C11 — Access list is enforced on announce, on cleaning and across reloads.
//! Layer 1: list parsing and swap (enumeration of file contents x reload sequences).
//! Layer 2: gate + clean on a live UDP socket worker (BFS), clean on the HTTP and WS storages (seqmc).
//! Layer 3: gate and SIGUSR1 wiring of all three `run()` (child processes).

use std::collections::{BTreeSet, HashSet, VecDeque};
use std::net::{IpAddr, Ipv4Addr, SocketAddr};
use std::path::PathBuf;
use std::sync::Arc;
use std::time::{Duration, Instant};

use aquatic_common::access_list::{create_access_list_cache, update_access_list, AccessListArcSwap, AccessListConfig, AccessListMode, AccessListQuery};
use aquatic_common::SecondsSinceServerStart;
use serde_json::json;

use crate::common::*;
use crate::http_sys::HttpSys;
use crate::netmc::*;
use crate::props::c13::{ref_decode_response, ref_encode_request, RefAnnounce, RefRequest, RefResponse};
use crate::seqmc::{self, Limits};
use crate::udp_sys::{Alphabet, Kind, WorldOpts};
use crate::ws_sys::{WsAlphabet, WsKind, WsOpts, WsSys, K1, K2};

fn hash(c: u8) -> [u8; 20] {
    let mut h = [c; 20];
    h[0] = c;
    h[19] = 0xf0 | (c & 0xf);
    h
}

const A: u8 = 0xa1;
const B: u8 = 0xb2;
const C: u8 = 0xc3;

#[derive(Clone, Debug)]
pub struct Variant {
    pub name: String,
    /// None = the file is missing; Some(Err) = a directory
    pub content: Option<Vec<u8>>,
    pub is_dir: bool,
    /// Some(set) = a good file with this list; None = reload must fail
    pub list: Option<BTreeSet<u8>>,
}

fn hexs(c: u8, style: usize) -> String {
    let s = hex::encode(hash(c));
    match style {
        0 => s,
        1 => s.to_uppercase(),
        _ => s.chars().enumerate().map(|(i, ch)| if i % 2 == 0 { ch.to_ascii_uppercase() } else { ch }).collect(),
    }
}

pub fn variants() -> Vec<Variant> {
    let mut v = Vec::new();
    let subsets: Vec<Vec<u8>> = vec![vec![], vec![A], vec![B], vec![A, B], vec![B, A]];
    for (si, sub) in subsets.iter().enumerate() {
        for style in 0..3 {
            // plain, with final newline and without
            let lines: Vec<String> = sub.iter().map(|c| hexs(*c, style)).collect();
            let set: BTreeSet<u8> = sub.iter().cloned().collect();
            v.push(Variant { name: format!("subset{}-style{}-nl", si, style), content: Some(format!("{}\n", lines.join("\n")).into_bytes()), is_dir: false, list: Some(set.clone()) });
            if style == 0 {
                v.push(Variant { name: format!("subset{}-nonl", si), content: Some(lines.join("\n").into_bytes()), is_dir: false, list: Some(set.clone()) });
                v.push(Variant { name: format!("subset{}-crlf", si), content: Some(format!("{}\r\n", lines.join("\r\n")).into_bytes()), is_dir: false, list: Some(set.clone()) });
                v.push(Variant { name: format!("subset{}-blank-and-space", si), content: Some(format!("\n\n  \t{}  \n\n\t\n", lines.join(" \t \n\n \t")).into_bytes()), is_dir: false, list: Some(set.clone()) });
            }
        }
    }
    v.push(Variant { name: "missing".into(), content: None, is_dir: false, list: None });
    v.push(Variant { name: "directory".into(), content: None, is_dir: true, list: None });
    let good = [hexs(A, 0), hexs(B, 1)];
    for (bn, bad) in [("39chars", hexs(C, 0)[..39].to_string()), ("41chars", format!("{}0", hexs(C, 0))), ("nonhex", format!("{}zz", &hexs(C, 0)[..38])), ("nonascii", format!("{}ö", &hexs(C, 0)[..39])), ("inner-space", format!("{} {}", &hexs(C, 0)[..20], &hexs(C, 0)[20..]))] {
        for pos in 0..3 {
            let mut lines: Vec<String> = good.to_vec();
            lines.insert(pos, bad.clone());
            v.push(Variant { name: format!("bad-{}-at-{}", bn, pos), content: Some(format!("{}\n", lines.join("\n")).into_bytes()), is_dir: false, list: None });
        }
    }
    v.push(Variant { name: "invalid-utf8".into(), content: Some(vec![0xff, 0xfe, b'\n']), is_dir: false, list: None });
    v
}

fn install(path: &PathBuf, v: &Variant) {
    let _ = std::fs::remove_file(path);
    let _ = std::fs::remove_dir(path);
    if v.is_dir {
        std::fs::create_dir(path).unwrap();
    } else if let Some(c) = &v.content {
        // written in place, as an operator's editor or `cp` would
        std::fs::write(path, c).unwrap();
    }
}

fn allows_exp(mode: AccessListMode, list: &BTreeSet<u8>, h: u8) -> bool {
    match mode {
        AccessListMode::Allow => list.contains(&h),
        AccessListMode::Deny => !list.contains(&h),
        AccessListMode::Off => true,
    }
}

fn mode_name(m: AccessListMode) -> &'static str {
    match m {
        AccessListMode::Allow => "allow",
        AccessListMode::Deny => "deny",
        AccessListMode::Off => "off",
    }
}

// ---------------------------------------------------------------------------------------------- layer 1

fn layer1(run: &mut Run, depth: usize) -> (u64, u64) {
    let vars = variants();
    let dir = tempfile::tempdir().unwrap();
    let path = dir.path().join("list.txt");
    let mut seqs = 0u64;
    let mut checks = 0u64;
    // sequences of reloads: all of length <= depth (the last element ranges over every variant, earlier ones over a spread)
    let spread: Vec<usize> = (0..vars.len()).filter(|i| i % 3 == 0 || vars[*i].list.is_none() && i % 2 == 0).collect();
    let mut sequences: Vec<Vec<usize>> = (0..vars.len()).map(|i| vec![i]).collect();
    if depth >= 2 {
        for a in &spread {
            for b in 0..vars.len() {
                sequences.push(vec![*a, b]);
            }
        }
    }
    if depth >= 3 {
        for a in &spread {
            for b in &spread {
                for c in 0..vars.len() {
                    sequences.push(vec![*a, *b, c]);
                }
            }
        }
    }
    for mode in [AccessListMode::Allow, AccessListMode::Deny, AccessListMode::Off] {
        let cfg = AccessListConfig { mode, path: path.clone() };
        for seq in &sequences {
            seqs += 1;
            let al: Arc<AccessListArcSwap> = Arc::new(AccessListArcSwap::default());
            let mut cache = create_access_list_cache(&al);
            let mut model: BTreeSet<u8> = BTreeSet::new();
            for (step, vi) in seq.iter().enumerate() {
                let v = &vars[*vi];
                install(&path, v);
                let r = std::panic::catch_unwind(std::panic::AssertUnwindSafe(|| update_access_list(&cfg, &al)));
                let detail = json!({"layer": 1, "mode": mode_name(mode), "sequence": seq.iter().map(|i| vars[*i].name.clone()).collect::<Vec<_>>(), "step": step});
                let r = match r {
                    Ok(r) => r,
                    Err(e) => {
                        run.violation("accesslist/reload-panic", format!("update_access_list panicked: {} ({})", panic_message(&e), detail), detail);
                        break;
                    }
                };
                match (&v.list, mode) {
                    (_, AccessListMode::Off) => {
                        if r.is_err() {
                            run.violation("accesslist/off-mode-reload-error", format!("mode off: reload returned an error ({})", detail), detail.clone());
                        }
                    }
                    (Some(l), _) => {
                        if r.is_err() {
                            run.violation("accesslist/good-file-rejected", format!("well-formed list file {:?} rejected: {:?} ({})", v.name, r.err().map(|e| format!("{:#}", e)), detail), detail.clone());
                        } else {
                            model = l.clone();
                        }
                    }
                    (None, _) => {
                        if r.is_ok() {
                            run.violation("accesslist/bad-file-accepted", format!("reload of {:?} must fail but returned Ok ({})", v.name, detail), detail.clone());
                            break;
                        }
                    }
                }
                for h in [A, B, C] {
                    checks += 1;
                    let exp = allows_exp(mode, &model, h);
                    let got1 = al.allows(mode, &hash(h));
                    let got2 = cache.load().allows(mode, &hash(h));
                    if got1 != exp || got2 != exp {
                        let sig = if v.list.is_none() { "accesslist/failed-reload-changed-decisions" } else { "accesslist/decision-after-reload" };
                        run.violation(sig, format!("after reload #{} ({:?}) in mode {}: allows({:02x}) = {} / cached {} , the list in force says {} ({})", step, v.name, mode_name(mode), h, got1, got2, exp, detail), detail.clone());
                    }
                }
            }
        }
    }
    (seqs, checks)
}

// ---------------------------------------------------------------------------------------------- layer 2 (UDP, live socket worker)

#[derive(Clone, Debug, PartialEq, Eq, Hash, serde::Serialize, serde::Deserialize)]
enum E2 {
    Ann(u8),
    Reload(usize),
    Clean,
}

fn layer2_udp(run: &mut Run, mode: AccessListMode, uring: bool, depth: usize) -> (u64, u64) {
    let dir = tempfile::tempdir().unwrap();
    let path = dir.path().join("list.txt");
    std::fs::write(&path, "").unwrap();
    let mut config = aquatic_udp::config::Config::default();
    config.network.use_io_uring = uring;
    config.access_list.mode = mode;
    config.access_list.path = path.clone();
    config.cleaning.max_peer_age = 100_000;
    let t = UdpTracker::start(config.clone(), 1);
    let sock = udp_client(IpAddr::V4(Ipv4Addr::LOCALHOST));
    sock.set_read_timeout(Some(Duration::from_millis(50))).unwrap();
    let dst = t.dst(true);
    let mut tx = 100;
    let mut rt = |bytes: Vec<u8>, txid: i32| -> Option<RefResponse> {
        for _ in 0..3 {
            sock.send_to(&bytes, dst).ok()?;
            let t0 = Instant::now();
            while t0.elapsed() < Duration::from_millis(1500) {
                let mut buf = [0u8; 2048];
                if let Ok((n, _)) = sock.recv_from(&mut buf) {
                    if n >= 8 && i32::from_be_bytes(buf[4..8].try_into().unwrap()) == txid {
                        return ref_decode_response(&buf[..n], true);
                    }
                }
            }
        }
        None
    };
    let cid = match rt(ref_encode_request(&RefRequest::Connect { transaction_id: 1 }), 1) {
        Some(RefResponse::Connect { connection_id, .. }) => connection_id,
        _ => machinery_failure("layer 2: no connect reply"),
    };
    // reload variants: {}, {A}, {B}, {A,B}, bad
    let files: Vec<(Option<BTreeSet<u8>>, String)> = vec![
        (Some(BTreeSet::new()), String::new()),
        (Some([A].into()), format!("{}\n", hexs(A, 0))),
        (Some([B].into()), format!("  {}\n\n", hexs(B, 1))),
        (Some([A, B].into()), format!("{}\r\n{}", hexs(A, 2), hexs(B, 0))),
        (None, format!("{}\n{}\nnot-a-hash\n", hexs(A, 0), hexs(C, 0))),
    ];
    let stats: aquatic_udp::common::CachePaddedArc<aquatic_udp::common::IpVersionStatistics<aquatic_udp::common::SwarmWorkerStatistics>> = Default::default();
    let (stx, _srx) = crossbeam_channel::unbounded();
    let stored = |t: &UdpTracker| -> BTreeSet<u8> { t.state.torrent_maps.verif_dump().ipv4.iter().filter(|x| !x.peers.is_empty()).map(|x| x.info_hash[0]).collect() };
    let reset = |t: &UdpTracker| {
        // expire everything, then restore the empty list
        t.state.torrent_maps.clean_and_update_statistics(&t.config, &stats, &stx, &Arc::new(AccessListArcSwap::default()), SecondsSinceServerStart::new_raw(u32::MAX), false);
        std::fs::write(&path, "").unwrap();
        if mode != AccessListMode::Off {
            update_access_list(&t.config.access_list, &t.state.access_list).unwrap();
        }
        // mode deny with an empty list keeps nothing out; whatever is left must be gone
        if !t.state.torrent_maps.verif_dump().ipv4.is_empty() {
            machinery_failure("layer 2 reset did not empty the swarm");
        }
    };
    // BFS over (list in force, stored torrents); each transition replays its path on the live worker after a reset
    let mut seen: HashSet<(BTreeSet<u8>, BTreeSet<u8>)> = HashSet::new();
    let mut q: VecDeque<(Vec<E2>, (BTreeSet<u8>, BTreeSet<u8>))> = VecDeque::new();
    seen.insert((BTreeSet::new(), BTreeSet::new()));
    q.push_back((Vec::new(), (BTreeSet::new(), BTreeSet::new())));
    let events: Vec<E2> = [A, B, C].iter().map(|h| E2::Ann(*h)).chain((0..files.len()).map(E2::Reload)).chain([E2::Clean]).collect();
    let mut transitions = 0u64;
    while let Some((path_ev, _st)) = q.pop_front() {
        if path_ev.len() >= depth {
            continue;
        }
        for ev in &events {
            transitions += 1;
            reset(&t);
            let mut list: BTreeSet<u8> = BTreeSet::new();
            let mut model_stored: BTreeSet<u8> = BTreeSet::new();
            let mut full = path_ev.clone();
            full.push(ev.clone());
            for (i, e) in full.iter().enumerate() {
                let last = i + 1 == full.len();
                let detail = json!({"layer": 2, "tracker": "udp", "backend": if uring { "io_uring" } else { "mio" }, "mode": mode_name(mode), "history": full, "step": i});
                match e {
                    E2::Ann(h) => {
                        tx += 1;
                        let a = RefAnnounce { connection_id: cid, transaction_id: tx, info_hash: hash(*h), peer_id: [1; 20], downloaded: 0, left: 1, uploaded: 0, event: 2, ip: [0; 4], key: 0, num_want: 1, port: 5000 + *h as u16 };
                        let r = rt(ref_encode_request(&RefRequest::Announce(a)), tx);
                        let allowed = allows_exp(mode, &list, *h);
                        if allowed {
                            model_stored.insert(*h);
                        }
                        if last {
                            match (&r, allowed) {
                                (Some(RefResponse::Announce { .. }), true) | (Some(RefResponse::Error { .. }), false) => {}
                                _ => run.violation(
                                    if allowed { "accesslist/udp/permitted-announce-refused" } else { "accesslist/udp/forbidden-announce-accepted" },
                                    format!("announce of {:02x} with list {:?} in mode {}: reply {:?}, expected {} ({})", h, list, mode_name(mode), r.as_ref().map(|x| format!("{:?}", x).chars().take(60).collect::<String>()), if allowed { "an announce reply" } else { "an error reply" }, detail),
                                    detail.clone(),
                                ),
                            }
                        }
                    }
                    E2::Reload(fi) => {
                        std::fs::write(&path, &files[*fi].1).unwrap();
                        let r = update_access_list(&t.config.access_list, &t.state.access_list);
                        if mode != AccessListMode::Off {
                            match (&files[*fi].0, r.is_ok()) {
                                (Some(l), true) => list = l.clone(),
                                (None, false) => {}
                                (exp, ok) => run.violation("accesslist/udp/reload-result", format!("reload of file #{} returned ok={} but the file is {} ({})", fi, ok, if exp.is_some() { "well-formed" } else { "malformed" }, detail), detail.clone()),
                            }
                        }
                    }
                    E2::Clean => {
                        t.state.torrent_maps.clean_and_update_statistics(&t.config, &stats, &stx, &t.state.access_list, SecondsSinceServerStart::new_raw(1), false);
                        model_stored.retain(|h| allows_exp(mode, &list, *h));
                    }
                }
                if last {
                    let got = stored(&t);
                    if got != model_stored {
                        let sig = match e {
                            E2::Clean => "accesslist/udp/clean-result",
                            E2::Ann(_) => "accesslist/udp/announce-state",
                            E2::Reload(_) => "accesslist/udp/reload-changed-state",
                        };
                        run.violation(sig, format!("stored torrents {:02x?}, expected {:02x?} (list in force {:02x?}, mode {}) ({})", got, model_stored, list, mode_name(mode), detail), detail.clone());
                    }
                }
            }
            let key = (list.clone(), model_stored.clone());
            if seen.insert(key.clone()) {
                q.push_back((full, key));
            }
        }
    }
    (seen.len() as u64, transitions)
}

// ---------------------------------------------------------------------------------------------- layer 3

fn layer3(kind: &'static str, mode: AccessListMode) -> (u64, Vec<(String, String, serde_json::Value)>) {
    let mut viols = Vec::new();
    let dir = tempfile::tempdir().unwrap();
    let path = dir.path().join("list.txt");
    std::fs::write(&path, "").unwrap();
    let mut cfg = json!({"access_list": {"mode": mode_name(mode), "path": path.to_string_lossy()}, "cleaning": {"torrent_cleaning_interval": 1, "max_peer_age": 100000}});
    if kind == "udp" {
        cfg["socket_workers"] = json!(2);
    } else {
        cfg["socket_workers"] = json!(2);
        cfg["swarm_workers"] = json!(2);
    }
    let mut t = TrackerChild::spawn(kind, cfg, &[("AQV_WATCH_RELOADS", "1".into())]);
    if !t.wait_ready(12) {
        machinery_failure(&format!("layer 3: {} tracker did not start", kind));
    }
    let addr = SocketAddr::new(IpAddr::V4(Ipv4Addr::LOCALHOST), t.port);
    let mut checks = 0;
    let steps: Vec<(Option<BTreeSet<u8>>, String)> = vec![
        (Some([A].into()), format!("{}\n", hexs(A, 0))),
        (Some([B].into()), format!("\n {}\t\n", hexs(B, 1))),
        (None, format!("{}\n{}x\n", hexs(A, 0), hexs(C, 0))),
        (Some([A, B].into()), format!("{}\r\n{}\r\n", hexs(A, 2), hexs(B, 0))),
        (None, String::from("MISSING")),
    ];
    let mut list: BTreeSet<u8> = BTreeSet::new();
    let mut reloads_seen = 0usize;
    // helpers per tracker kind: announce -> Some(accepted) / None (no reply); scrape -> has peers
    let udp_sock = udp_client(IpAddr::V4(Ipv4Addr::LOCALHOST));
    udp_sock.set_read_timeout(Some(Duration::from_millis(50))).unwrap();
    let mut tx = 10;
    let mut udp_cid: Option<i64> = None;
    let mut ws: Option<WsConn> = None;
    let mut http: Option<HttpConn> = None;
    let mut announce = |h: u8, ws: &mut Option<WsConn>, http: &mut Option<HttpConn>| -> Option<bool> {
        match kind {
            "udp" => {
                let mut rt = |bytes: Vec<u8>, txid: i32| -> Option<RefResponse> {
                    for _ in 0..3 {
                        udp_sock.send_to(&bytes, addr).ok()?;
                        let t0 = Instant::now();
                        while t0.elapsed() < Duration::from_millis(1000) {
                            let mut buf = [0u8; 2048];
                            if let Ok((n, _)) = udp_sock.recv_from(&mut buf) {
                                if n >= 8 && i32::from_be_bytes(buf[4..8].try_into().unwrap()) == txid {
                                    return ref_decode_response(&buf[..n], true);
                                }
                            }
                        }
                    }
                    None
                };
                if udp_cid.is_none() {
                    if let Some(RefResponse::Connect { connection_id, .. }) = rt(ref_encode_request(&RefRequest::Connect { transaction_id: 5 }), 5) {
                        udp_cid = Some(connection_id);
                    }
                }
                tx += 1;
                let a = RefAnnounce { connection_id: udp_cid?, transaction_id: tx, info_hash: hash(h), peer_id: [1; 20], downloaded: 0, left: 1, uploaded: 0, event: 2, ip: [0; 4], key: 0, num_want: 1, port: 5000 + h as u16 };
                match rt(ref_encode_request(&RefRequest::Announce(a)), tx) {
                    Some(RefResponse::Announce { .. }) => Some(true),
                    Some(RefResponse::Error { .. }) => Some(false),
                    _ => None,
                }
            }
            "http" => {
                if http.is_none() {
                    *http = HttpConn::connect(addr);
                }
                let c = http.as_mut()?;
                c.send(&http_get(&http_announce_path(&hash(h), &[b'p'; 20], 5000 + h as u16, 1, "started", None, 0), ""));
                match c.read_reply() {
                    Ok(r) => {
                        let b = crate::bencode::decode(&r.body[..r.body.len().saturating_sub(2)]).ok()?;
                        Some(b.get("failure reason").is_none())
                    }
                    Err(_) => {
                        *http = None;
                        None
                    }
                }
            }
            _ => {
                if ws.is_none() {
                    *ws = WsConn::connect(addr);
                }
                let c = ws.as_mut()?;
                c.send_text(json!({"action": "announce", "info_hash": id20(&hash(h)), "peer_id": id20(&[b'q'; 20]), "left": 1}).to_string());
                let txt = c.recv_text(8000)?;
                let v: serde_json::Value = serde_json::from_str(&txt).ok()?;
                Some(v.get("failure reason").is_none())
            }
        }
    };
    let scrape = |h: u8| -> Option<bool> {
        match kind {
            "udp" => {
                let s = udp_client(IpAddr::V4(Ipv4Addr::LOCALHOST));
                s.set_read_timeout(Some(Duration::from_millis(800))).unwrap();
                s.send_to(&ref_encode_request(&RefRequest::Connect { transaction_id: 9 }), addr).ok()?;
                let mut buf = [0u8; 2048];
                let (n, _) = s.recv_from(&mut buf).ok()?;
                let cid = match ref_decode_response(&buf[..n], true)? {
                    RefResponse::Connect { connection_id, .. } => connection_id,
                    _ => return None,
                };
                s.send_to(&ref_encode_request(&RefRequest::Scrape { connection_id: cid, transaction_id: 10, info_hashes: vec![hash(h)] }), addr).ok()?;
                let (n, _) = s.recv_from(&mut buf).ok()?;
                match ref_decode_response(&buf[..n], true)? {
                    RefResponse::Scrape { stats, .. } => Some(stats[0].0 + stats[0].2 > 0),
                    _ => None,
                }
            }
            "http" => {
                let mut c = HttpConn::connect(addr)?;
                let enc: String = hash(h).iter().map(|x| format!("%{:02x}", x)).collect();
                c.send(&http_get(&format!("/scrape?info_hash={}", enc), ""));
                let r = c.read_reply().ok()?;
                let b = crate::bencode::decode(&r.body[..r.body.len().saturating_sub(2)]).ok()?;
                let f = b.get("files")?.clone();
                if let crate::bencode::B::Dict(d) = f {
                    let e = d.get(&hash(h).to_vec())?;
                    Some(e.get("complete")?.as_int()? + e.get("incomplete")?.as_int()? > 0)
                } else {
                    None
                }
            }
            _ => {
                let mut c = WsConn::connect(addr)?;
                c.send_text(json!({"action": "scrape", "info_hash": id20(&hash(h))}).to_string());
                let txt = c.recv_text(8000)?;
                let v: serde_json::Value = serde_json::from_str(&txt).ok()?;
                let e = v["files"].get(id20(&hash(h)));
                Some(e.map(|e| e["complete"].as_u64().unwrap_or(0) + e["incomplete"].as_u64().unwrap_or(0) > 0).unwrap_or(false))
            }
        }
    };
    let mut stored: BTreeSet<u8> = BTreeSet::new();
    for (si, (new_list, content)) in steps.iter().enumerate() {
        if content == "MISSING" {
            let _ = std::fs::remove_file(&path);
        } else {
            std::fs::write(&path, content).unwrap();
        }
        unsafe { libc::kill(t.child.id() as i32, libc::SIGUSR1) };
        // wait until the reload attempt has completed (hook H8 counter, printed by `aqv serve`)
        reloads_seen += 1;
        let t0 = Instant::now();
        loop {
            if t.line_with(&format!("RELOAD-COUNT {}", reloads_seen)).is_some() {
                break;
            }
            if t0.elapsed() > Duration::from_secs(5) {
                if mode == AccessListMode::Off {
                    break;
                }
                machinery_failure(&format!("layer 3 ({} {}): reload #{} never completed", kind, mode_name(mode), reloads_seen));
            }
            std::thread::sleep(Duration::from_millis(10));
        }
        if let (Some(l), true) = (new_list, mode != AccessListMode::Off) {
            list = l.clone();
        }
        let detail = json!({"layer": 3, "tracker": kind, "mode": mode_name(mode), "step": si, "list_in_force": list.iter().map(|x| format!("{:02x}", x)).collect::<Vec<_>>()});
        for h in [A, B, C] {
            checks += 1;
            let allowed = allows_exp(mode, &list, h);
            // an unanswered announce (loaded machine, broken connection) is repeated: refused announces have no effect and
            // accepted ones are idempotent
            let mut got = announce(h, &mut ws, &mut http);
            for _ in 0..6 {
                if got.is_some() {
                    break;
                }
                ws = None;
                http = None;
                std::thread::sleep(Duration::from_millis(500));
                got = announce(h, &mut ws, &mut http);
            }
            if got.is_none() {
                // no observation at all (overloaded machine or a tracker that stopped answering): not a verdict on the access list
                viols.push(("INCONCLUSIVE".into(), format!("[{} mode {}] announce of {:02x} unanswered 7 times", kind, mode_name(mode), h), detail.clone()));
                continue;
            }
            if got != Some(allowed) {
                viols.push((
                    format!("accesslist/{}/{}", kind, if allowed { "permitted-announce-refused" } else { "forbidden-announce-accepted" }),
                    format!("[{} mode {} after reload step {}] announce of {:02x}: {:?}, expected accepted={} ({})", kind, mode_name(mode), si, h, got, allowed, detail),
                    detail.clone(),
                ));
            }
            if allowed {
                stored.insert(h);
            }
        }
        // the next timer-driven cleaning pass removes what the list in force forbids and nothing else
        let before: BTreeSet<u8> = stored.clone();
        stored.retain(|h| allows_exp(mode, &list, *h));
        // wait at least two cleaning intervals; then, if something has to go, poll until it is gone (10 s at most)
        std::thread::sleep(Duration::from_millis(2300));
        let t_poll = Instant::now();
        while before != stored && t_poll.elapsed() < Duration::from_secs(10) {
            if before.difference(&stored).all(|h| scrape(*h) == Some(false)) {
                break;
            }
            std::thread::sleep(Duration::from_millis(100));
        }
        for h in [A, B, C] {
            checks += 1;
            let mut got = scrape(h);
            for _ in 0..6 {
                if got.is_some() {
                    break;
                }
                std::thread::sleep(Duration::from_millis(500));
                got = scrape(h);
            }
            if got.is_none() {
                viols.push(("INCONCLUSIVE".into(), format!("[{} mode {}] scrape of {:02x} unanswered 7 times", kind, mode_name(mode), h), detail.clone()));
                continue;
            }
            if got != Some(stored.contains(&h)) {
                viols.push((
                    format!("accesslist/{}/after-clean", kind),
                    format!("[{} mode {} after reload step {} and a cleaning pass] torrent {:02x} has peers: {:?}, expected {} ({})", kind, mode_name(mode), si, h, got, stored.contains(&h), detail),
                    detail.clone(),
                ));
            }
        }
    }
    (checks, viols)
}

pub fn main(args: &Args) -> ! {
    let mut run = Run::new(args, "model_checking");
    let th = args.tier.thorough();
    run.set("engine", "layer 1: enumeration of list-file contents x reload sequences through update_access_list; layer 2: BFS over announce / reload / clean histories on a live UDP socket worker (harness-owned State) with dedup on (list in force, stored torrents), seqmc over the HTTP and WS storages with reload events; layer 3: all three run() in child processes, SIGUSR1-driven reloads awaited through the H8 reload counter, timer-driven cleaning");
    run.assume("layer 3 waits 2.3 s for a timer-driven cleaning pass (torrent_cleaning_interval = 1 s)");
    if args.replay.is_some() {
        eprintln!("replay: re-running the check (histories are short and global to the tracker)");
    }
    // ---- layer 1
    let (seqs, checks) = layer1(&mut run, if th { 3 } else { 2 });
    run.set("layer1_reload_sequences", seqs);
    run.set("layer1_decisions_checked", checks);
    run.set("layer1_file_variants", variants().len() as u64);
    eprintln!("[C11] layer 1: sequences={} checks={} t={:.1}s", seqs, checks, run.elapsed());
    // ---- layer 2
    let mut states = 0;
    let mut transitions = 0;
    for mode in [AccessListMode::Allow, AccessListMode::Deny, AccessListMode::Off] {
        for uring in [false, true] {
            if uring && !th && mode != AccessListMode::Allow {
                continue;
            }
            let (s, t) = layer2_udp(&mut run, mode, uring, if th { 5 } else { 4 });
            states += s;
            transitions += t;
        }
    }
    eprintln!("[C11] layer 2 udp: states={} transitions={} t={:.1}s", states, transitions, run.elapsed());
    run.set("layer2_udp_states", states);
    run.set("layer2_udp_transitions", transitions);
    run.add("states", states);
    run.add("transitions", transitions);
    run.add("traces_validated_against_impl", transitions);
    for mode in [AccessListMode::Allow, AccessListMode::Deny] {
        let lists = vec![vec![], vec![0u8], vec![1], vec![0, 1]];
        let h = HttpSys {
            a: Alphabet {
                name: if mode == AccessListMode::Allow { "http-clean-allow" } else { "http-clean-deny" },
                opts: WorldOpts { hashes: vec![0, 1, 2], families: vec![true], access_mode: mode, lists: lists.clone(), ..Default::default() },
                keys: 1,
                kinds: vec![Kind::Leech],
                pids: None,
                ages: vec![5],
                lags: vec![0],
                numwants: vec![-1],
                scrapes: vec![],
                clock_max: 0,
                reloads: vec![0, 1, 2, 3],
                clean: true,
            },
            max_scrape: 100,
            order_free_key: false,
        };
        seqmc::run_bfs(&mut run, &h, &Limits { max_depth: 64, max_states: 1_000_000, max_wall_s: 120.0, threads: num_threads() }, true);
        let w = WsSys(WsAlphabet {
            name: if mode == AccessListMode::Allow { "ws-clean-allow" } else { "ws-clean-deny" },
            opts: WsOpts { conns: vec![(0, K1, true), (0, K2, true)], hashes: vec![0, 1, 2], max_peer_age: 5, access_mode: mode, lists: lists.clone(), ..Default::default() },
            peers: 2,
            peer_is_conn: true,
            kinds: vec![WsKind::Leech],
            offer_sets: vec![],
            answers: vec![],
            scrapes: vec![],
            clock_max: 0,
            clean: true,
            closes: false,
            reloads: vec![0, 1, 2, 3],
        });
        seqmc::run_bfs(&mut run, &w, &Limits { max_depth: if th { 64 } else { 6 }, max_states: 1_000_000, max_wall_s: 120.0, threads: num_threads() }, th);
    }
    // ---- layer 3
    let mut jobs: Vec<(&'static str, AccessListMode)> = Vec::new();
    for kind in ["udp", "http", "ws"] {
        for mode in [AccessListMode::Allow, AccessListMode::Deny, AccessListMode::Off] {
            if !th && mode == AccessListMode::Off && kind != "udp" {
                continue;
            }
            jobs.push((kind, mode));
        }
    }
    let res = par_map(&jobs, 9, |(k, m)| layer3(k, *m));
    let mut l3 = 0;
    for (c, vs) in res {
        l3 += c;
        for (sig, what, d) in vs {
            if sig == "INCONCLUSIVE" {
                machinery_failure(&format!("layer 3 could not observe the tracker: {}", what));
            }
            run.violation(sig, what, d);
        }
    }
    run.set("layer3_checks", l3);
    run.set("layer3_tracker_mode_combinations", jobs.len() as u64);
    run.add("traces_validated_against_impl", jobs.len() as u64);
    run.sample(json!({"layer": 1, "file_variant": variants()[5].name, "content": String::from_utf8_lossy(variants()[5].content.as_ref().unwrap())}));
    run.sample(json!({"layer": 3, "sequence": "{} -> {A} -> {B} -> malformed -> {A,B} -> missing", "after_each": "announce A, B, C; wait for a cleaning pass; scrape A, B, C"}));
    run.finish();
}
