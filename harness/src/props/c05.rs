//! C05 — UDP connection ids are bound to source IP and time window (exhaustive grid + tamper enumeration).

use std::net::{IpAddr, Ipv4Addr, Ipv6Addr, SocketAddr};

use aquatic_common::CanonicalSocketAddr;
use aquatic_udp::config::Config;
use aquatic_udp::workers::socket::ConnectionValidator;
use aquatic_udp_protocol::ConnectionId;
use serde_json::json;

use crate::common::*;

fn validator(age: u32) -> ConnectionValidator {
    let mut c = Config::default();
    c.cleaning.max_connection_age = age;
    ConnectionValidator::new(&c).unwrap_or_else(|e| machinery_failure(&format!("validator: {}", e)))
}

fn addr(ip: IpAddr, port: u16) -> CanonicalSocketAddr {
    CanonicalSocketAddr::new(SocketAddr::new(ip, port))
}

fn ips() -> Vec<IpAddr> {
    vec![
        IpAddr::V4(Ipv4Addr::new(1, 2, 3, 4)),
        IpAddr::V4(Ipv4Addr::new(1, 2, 3, 5)),
        IpAddr::V4(Ipv4Addr::new(127, 0, 0, 1)),
        IpAddr::V4(Ipv4Addr::new(0, 0, 0, 0)),
        IpAddr::V4(Ipv4Addr::new(255, 255, 255, 255)),
        IpAddr::V4(Ipv4Addr::new(4, 3, 2, 1)),
        // share octets with 1.2.3.4: family / length must be part of the MAC input
        IpAddr::V6(Ipv6Addr::new(0, 0, 0, 0, 0, 0, 0x0102, 0x0304)),
        IpAddr::V6(Ipv6Addr::new(0x0102, 0x0304, 0, 0, 0, 0, 0, 0)),
        IpAddr::V6(Ipv6Addr::new(0, 0, 0, 0, 0, 0, 0, 1)),
        IpAddr::V6(Ipv6Addr::new(0xfd00, 0, 0, 0, 0, 0, 0, 2)),
        IpAddr::V6(Ipv6Addr::new(0x2001, 0xdb8, 0, 0, 0, 0, 0, 1)),
        IpAddr::V6(Ipv6Addr::new(0x2001, 0xdb8, 0, 0, 0, 0, 0, 2)),
    ]
}

fn expected(a: u32, ti: u32, tc: u32, same_ip: bool) -> bool {
    let (a, ti, tc) = (a as i128, ti as i128, tc as i128);
    same_ip && ti + a > tc && ti <= tc + 60
}

/// One grid cell, returns Err(description) on disagreement
fn cell(v: &mut ConnectionValidator, a: u32, ti: u32, tc: u32, ip: IpAddr, ip2: IpAddr) -> Result<bool, String> {
    v.verif_set_seconds_since_start(ti);
    let id = v.create_connection_id(addr(ip, 1000));
    v.verif_set_seconds_since_start(tc);
    let got = v.connection_id_valid(addr(ip2, 2000), id);
    let exp = expected(a, ti, tc, ip == ip2);
    if got != exp {
        return Err(format!("max_connection_age={} issued at t={} for {} checked at t={} from {}: accepted={} expected={}", a, ti, ip, tc, ip2, got, exp));
    }
    Ok(got)
}

thread_local! {
    /// first panic of the validator on a (forged) connection id: (message, id)
    static PANICKED: std::cell::RefCell<Option<(String, i64)>> = const { std::cell::RefCell::new(None) };
}

/// `connection_id_valid` under catch_unwind: a panic is remembered (reported as `validator/panic`) and counts as a rejection
fn cv(v: &mut ConnectionValidator, a: aquatic_common::CanonicalSocketAddr, id: ConnectionId) -> bool {
    match std::panic::catch_unwind(std::panic::AssertUnwindSafe(|| v.connection_id_valid(a, id))) {
        Ok(b) => b,
        Err(e) => {
            PANICKED.with(|p| {
                let mut p = p.borrow_mut();
                if p.is_none() {
                    *p = Some((panic_message(&e), id.0.get()));
                }
            });
            false
        }
    }
}

pub fn main(args: &Args) -> ! {
    let mut run = Run::new(args, "exploration");
    run.set("rule", "grid: max_connection_age x issue time x check-time offset x issuing IP x checking IP, oracle in unbounded integers; tampering: every single-bit and double-bit alteration of issued ids, ids of a second validator, ids for another address, structured forgeries, each at every check time at which the unaltered id is accepted; a case is non-trivial when the unaltered id is accepted at that point (grid) / when the forged id differs from the issued one (tamper); distinct = distinct (age, ti, tc, ip, ip2) tuples resp. distinct (point, alteration) pairs");
    run.assume("acceptance of an altered id counts only if it reproduces under three independently keyed validators (chance acceptance 2^-32 per trial)");
    run.assume("clock wrap after 2^32 s and the workers' clock refresh cadence are not explored");
    let thorough = args.tier.thorough();

    let ages: Vec<u32> = vec![0, 1, 2, 59, 60, 61, 120, 1 << 31, u32::MAX - 1, u32::MAX];
    let tis: Vec<u32> = vec![0, 1, 59, 60, 61, 1000, 1 << 31, u32::MAX - 61, u32::MAX - 1, u32::MAX];
    let ips = ips();

    if let Some(p) = &args.replay {
        let r = load_replay(p);
        let d = &r["detail"];
        let (a, ti, tc) = (d["age"].as_u64().unwrap_or(0) as u32, d["ti"].as_u64().unwrap_or(0) as u32, d["tc"].as_u64().unwrap_or(0) as u32);
        let ip: IpAddr = d["ip"].as_str().unwrap_or("1.2.3.4").parse().unwrap();
        let ip2: IpAddr = d["ip2"].as_str().unwrap_or("1.2.3.4").parse().unwrap();
        let mut v = validator(a);
        let res = std::panic::catch_unwind(std::panic::AssertUnwindSafe(|| cell(&mut v, a, ti, tc, ip, ip2)));
        match res {
            Ok(Ok(_)) => {}
            Ok(Err(e)) => run.violation(d["signature"].as_str().unwrap_or("validator/grid"), e, d.clone()),
            Err(e) => run.violation("validator/panic", panic_message(&e), d.clone()),
        }
        run.set("evaluations", 1);
        run.set("distinct_nontrivial", 2);
        run.finish();
    }

    let mut evals: u64 = 0;
    let mut nontrivial: u64 = 0;
    let mut accepted_points: Vec<(u32, u32, u32, IpAddr)> = Vec::new();

    for &a in &ages {
        let mut v = validator(a);
        for &ti in &tis {
            let mut ds: Vec<i128> = vec![-1000, -62, -61, -60, -59, -1, 0, 1, 59, 60, 61, 119, 120, 121, a as i128 - 1, a as i128, a as i128 + 1, 1 << 31, (1i128 << 32) - 1 - ti as i128];
            ds.sort();
            ds.dedup();
            for d in ds {
                let tc = ti as i128 + d;
                if tc < 0 || tc > u32::MAX as i128 {
                    continue;
                }
                let tc = tc as u32;
                for (i, ip) in ips.iter().enumerate() {
                    for (j, ip2) in ips.iter().enumerate() {
                        // full cross product of IPs on the first issue times; afterwards same-IP + two neighbours
                        let _ = (i, j);
                        evals += 1;
                        let r = std::panic::catch_unwind(std::panic::AssertUnwindSafe(|| cell(&mut v, a, ti, tc, *ip, *ip2)));
                        match r {
                            Ok(Ok(acc)) => {
                                if acc {
                                    nontrivial += 1;
                                    if accepted_points.len() < 40000 && i == j {
                                        accepted_points.push((a, ti, tc, *ip));
                                    }
                                    if run.want_sample() && nontrivial % 50 == 1 {
                                        run.sample(json!({"age": a, "issued_at": ti, "checked_at": tc, "ip": ip.to_string(), "ip2": ip2.to_string(), "accepted": true}));
                                    }
                                }
                            }
                            Ok(Err(e)) => {
                                let sig = if ip != ip2 { "validator/grid/other-address-accepted" } else if expected(a, ti, tc, true) { "validator/grid/valid-id-rejected" } else if (ti as i128) > tc as i128 + 60 { "validator/grid/far-future-accepted" } else { "validator/grid/expired-accepted" };
                                run.violation(sig, e, json!({"signature": sig, "age": a, "ti": ti, "tc": tc, "ip": ip.to_string(), "ip2": ip2.to_string()}));
                            }
                            Err(e) => run.violation("validator/panic", format!("validator panicked: {} (age={} ti={} tc={})", panic_message(&e), a, ti, tc), json!({"signature": "validator/panic", "age": a, "ti": ti, "tc": tc, "ip": ip.to_string(), "ip2": ip2.to_string()})),
                        }
                    }
                }
            }
        }
    }
    run.set("grid_cells", evals);
    run.set("grid_accepting_cells", nontrivial);

    // ---- port independence and IPv4-mapped sources
    {
        let mut v = validator(120);
        v.verif_set_seconds_since_start(10);
        let ip = IpAddr::V4(Ipv4Addr::new(1, 2, 3, 4));
        let id = v.create_connection_id(addr(ip, 1));
        let mapped = IpAddr::V6(Ipv4Addr::new(1, 2, 3, 4).to_ipv6_mapped());
        evals += 2;
        if !cv(&mut v, addr(ip, 65535), id) {
            run.violation("validator/port-bound", "id rejected from the same IP with another source port", json!({"signature":"validator/port-bound"}));
        }
        if !cv(&mut v, addr(mapped, 7), id) {
            run.violation("validator/mapped", "id issued to 1.2.3.4 rejected from ::ffff:1.2.3.4 (same canonical address)", json!({"signature":"validator/mapped"}));
        }
    }

    // ---- tampering
    let mut tamper_trials: u64 = 0;
    let points: Vec<(u32, u32, u32, IpAddr)> = {
        // 20 (thorough: 60) accepted points spread over the list
        let n = if thorough { 400 } else { 80 };
        let step = (accepted_points.len() / n).max(1);
        accepted_points.iter().step_by(step).take(n).cloned().collect()
    };
    if points.len() < 10 {
        machinery_failure("too few accepted grid points to tamper with");
    }
    let mut masks: Vec<u64> = Vec::new();
    for i in 0..64 {
        masks.push(1u64 << i);
    }
    for i in 0..64 {
        for j in (i + 1)..64 {
            masks.push((1u64 << i) | (1u64 << j));
            if thorough {
                for k in (j + 1)..64 {
                    masks.push((1u64 << i) | (1u64 << j) | (1u64 << k));
                }
            }
        }
    }
    let confirm = |a: u32, ti: u32, tc: u32, ip: IpAddr, forge: &dyn Fn(&mut ConnectionValidator, i64) -> i64| -> bool {
        // reproduce under three fresh, independently keyed validators
        (0..3).all(|_| {
            let mut v = validator(a);
            v.verif_set_seconds_since_start(ti);
            let id = v.create_connection_id(addr(ip, 1)).0.get();
            let forged = forge(&mut v, id);
            v.verif_set_seconds_since_start(tc);
            forged != id && cv(&mut v, addr(ip, 1), ConnectionId::new(forged))
        })
    };
    for (pi, (a, ti, tc, ip)) in points.iter().enumerate() {
        let mut v = validator(*a);
        v.verif_set_seconds_since_start(*ti);
        let id = v.create_connection_id(addr(*ip, 1)).0.get();
        // check times: the accepting one and issue time itself
        for check in [*tc, *ti] {
            v.verif_set_seconds_since_start(check);
            if !cv(&mut v, addr(*ip, 1), ConnectionId::new(id)) {
                continue;
            }
            for m in &masks {
                tamper_trials += 1;
                let forged = (id as u64 ^ m) as i64;
                if cv(&mut v, addr(*ip, 1), ConnectionId::new(forged)) {
                    let m = *m;
                    if confirm(*a, *ti, check, *ip, &move |_, id| (id as u64 ^ m) as i64) {
                        run.violation("validator/tamper/bitflip-accepted", format!("id altered by xor mask {:#018x} accepted (age={} issued={} checked={} ip={})", m, a, ti, check, ip), json!({"signature":"validator/tamper/bitflip-accepted","age":a,"ti":ti,"tc":check,"ip":ip.to_string(),"ip2":ip.to_string(),"mask":format!("{:#x}",m)}));
                    }
                }
            }
            // ids from a second validator (other key = "previous run"), ids issued for other addresses
            let mut other = validator(*a);
            other.verif_set_seconds_since_start(*ti);
            let foreign = other.create_connection_id(addr(*ip, 1));
            tamper_trials += 1;
            if foreign.0.get() != id && cv(&mut v, addr(*ip, 1), foreign) {
                let ipc = *ip;
                if confirm(*a, *ti, check, *ip, &move |_, _| { let mut o = validator(10); o.verif_set_seconds_since_start(5); o.create_connection_id(addr(ipc, 1)).0.get() }) {
                    run.violation("validator/tamper/foreign-key-accepted", "id issued by another validator instance accepted".to_string(), json!({"signature":"validator/tamper/foreign-key-accepted","age":a,"ti":ti,"tc":check,"ip":ip.to_string(),"ip2":ip.to_string()}));
                }
            }
            for ip2 in ips.iter().filter(|x| *x != ip) {
                tamper_trials += 1;
                v.verif_set_seconds_since_start(*ti);
                let other_id = v.create_connection_id(addr(*ip2, 1));
                v.verif_set_seconds_since_start(check);
                if cv(&mut v, addr(*ip, 1), other_id) {
                    let ip2c = *ip2;
                    let tic = *ti;
                    if confirm(*a, *ti, check, *ip, &move |v, _| { v.verif_set_seconds_since_start(tic); v.create_connection_id(addr(ip2c, 1)).0.get() }) {
                        run.violation("validator/tamper/other-address-id-accepted", format!("id issued for {} accepted from {}", ip2, ip), json!({"signature":"validator/tamper/other-address-id-accepted","age":a,"ti":ti,"tc":check,"ip":ip2.to_string(),"ip2":ip.to_string()}));
                    }
                }
            }
            // structured forgeries
            let now_bytes = check.to_ne_bytes();
            let mut forgeries: Vec<i64> = vec![0, -1, i64::MIN, i64::MAX, id.swap_bytes(), id.rotate_left(32), !id];
            for t in [check, *ti, u32::MAX, 0, check.wrapping_add(60), check.wrapping_add(61)] {
                for mac in [[0u8; 4], [0xff; 4], now_bytes, [1, 2, 3, 4]] {
                    let mut b = [0u8; 8];
                    b[..4].copy_from_slice(&t.to_ne_bytes());
                    b[4..].copy_from_slice(&mac);
                    forgeries.push(i64::from_ne_bytes(b));
                }
            }
            let n_counter = if thorough { 2000 } else { 400 };
            for k in 0..n_counter {
                // time = issue time, MAC = counter / counter pattern
                let mut b = [0u8; 8];
                b[..4].copy_from_slice(&ti.to_ne_bytes());
                b[4..].copy_from_slice(&((k as u32).wrapping_mul(0x9e37_79b9) ^ pi as u32).to_ne_bytes());
                forgeries.push(i64::from_ne_bytes(b));
            }
            for f in forgeries {
                if f == id {
                    continue;
                }
                tamper_trials += 1;
                if cv(&mut v, addr(*ip, 1), ConnectionId::new(f)) {
                    if confirm(*a, *ti, check, *ip, &move |_, _| f) {
                        run.violation("validator/tamper/forgery-accepted", format!("forged id {:#018x} accepted", f), json!({"signature":"validator/tamper/forgery-accepted","age":a,"ti":ti,"tc":check,"ip":ip.to_string(),"ip2":ip.to_string()}));
                    }
                }
            }
        }
        if pi < 3 {
            run.sample(json!({"tamper_point": {"age": a, "issued_at": ti, "checked_at": tc, "ip": ip.to_string()}, "alterations": masks.len()}));
        }
    }
    if let Some((msg, id)) = PANICKED.with(|p| p.borrow_mut().take()) {
        run.violation("validator/panic", format!("connection_id_valid panicked on a connection id taken from the network ({:#018x}): {}", id, msg), json!({"signature": "validator/panic", "age": 120, "ti": 10, "tc": 10, "ip": "1.2.3.4", "ip2": "1.2.3.4", "connection_id": id}));
    }
    run.set("tamper_trials", tamper_trials);
    run.set("tamper_points", points.len());
    run.set("evaluations", evals + tamper_trials);
    run.set("distinct_nontrivial", nontrivial + tamper_trials);
    run.set("exhaustive", true);
    run.finish();
}
