//! C18 — Every reply the tracker computes fits its buffers and is delivered whole
//! (exhaustive over configuration values; real trackers started through `run()` in child processes).

use std::net::{IpAddr, Ipv4Addr, Ipv6Addr, SocketAddr, UdpSocket};
use std::time::{Duration, Instant};

use serde_json::json;

use crate::bencode;
use crate::common::*;
use crate::netmc::*;
use crate::props::c13::{ref_decode_response, ref_encode_request, RefAnnounce, RefRequest, RefResponse};

#[derive(Debug, Clone)]
pub struct Finding {
    pub sig: String,
    pub what: String,
    pub detail: serde_json::Value,
}

fn udp_rt(sock: &UdpSocket, dst: SocketAddr, bytes: &[u8], v4: bool, tx: i32) -> Option<RefResponse> {
    for _ in 0..4 {
        sock.send_to(bytes, dst).ok()?;
        let t0 = Instant::now();
        while t0.elapsed() < Duration::from_millis(2000) {
            let mut buf = vec![0u8; 70_000];
            if let Ok((n, from)) = sock.recv_from(&mut buf) {
                if from.port() != dst.port() || n < 8 {
                    continue;
                }
                if i32::from_be_bytes(buf[4..8].try_into().unwrap()) == tx {
                    return ref_decode_response(&buf[..n], v4);
                }
            }
        }
    }
    None
}

/// One UDP configuration: returns (cases, findings)
fn udp_config(uring: bool, max_response_peers: usize, max_scrape_torrents: u8, v4: bool) -> (u64, Vec<Finding>, String) {
    let mut f = Vec::new();
    let backend = if uring { "io_uring" } else { "mio" };
    let cfg = json!({"socket_workers": 1, "network": {"use_io_uring": uring}, "protocol": {"max_response_peers": max_response_peers, "max_scrape_torrents": max_scrape_torrents}});
    let mut t = TrackerChild::spawn("udp", cfg.clone(), &[]);
    if !t.wait_ready(30) {
        // refused at start-up: acceptable outcome
        let line = t.line_with_wait("RUN-RETURNED", 3000).unwrap_or_default();
        if t.exited().is_some() && line.contains("RUN-RETURNED Err") {
            return (1, f, format!("refused: {}", line));
        }
        machinery_failure(&format!("udp tracker neither ready nor refused ({} L={} S={}): {:?}", backend, max_response_peers, max_scrape_torrents, line));
    }
    let ip: IpAddr = if v4 { IpAddr::V4(Ipv4Addr::LOCALHOST) } else { IpAddr::V6(Ipv6Addr::LOCALHOST) };
    let sock = udp_client(ip);
    sock.set_read_timeout(Some(Duration::from_millis(50))).unwrap();
    let dst = SocketAddr::new(ip, t.port);
    let cid = match udp_rt(&sock, dst, &ref_encode_request(&RefRequest::Connect { transaction_id: 1 }), v4, 1) {
        Some(RefResponse::Connect { connection_id, .. }) => connection_id,
        other => machinery_failure(&format!("no connect reply: {:?}", other)),
    };
    let ann = |port: u16, tx: i32, numwant: i32, h: u8| {
        ref_encode_request(&RefRequest::Announce(RefAnnounce { connection_id: cid, transaction_id: tx, info_hash: [h; 20], peer_id: [7; 20], downloaded: 0, left: 1, uploaded: 0, event: 2, ip: [0; 4], key: 0, num_want: numwant, port }))
    };
    let mut cases = 0;
    let fam = if v4 { "ipv4" } else { "ipv6" };
    // fill to exactly L others, test; then L+1 others, test
    let mut filled = 0usize;
    for target in [max_response_peers, max_response_peers + 1] {
        while filled < target {
            let tx = 1000 + filled as i32;
            if udp_rt(&sock, dst, &ann(1000 + filled as u16, tx, 1, 1), v4, tx).is_none() {
                machinery_failure("fill announce not answered");
            }
            filled += 1;
        }
        cases += 1;
        let tx = 900_000 + target as i32;
        let r = udp_rt(&sock, dst, &ann(60_000, tx, 0, 1), v4, tx);
        // remove the requester again so that the next fill level is exact
        let txs = 950_000 + target as i32;
        let stop = ref_encode_request(&RefRequest::Announce(RefAnnounce { connection_id: cid, transaction_id: txs, info_hash: [1; 20], peer_id: [7; 20], downloaded: 0, left: 1, uploaded: 0, event: 3, ip: [0; 4], key: 0, num_want: 1, port: 60_000 }));
        let _ = udp_rt(&sock, dst, &stop, v4, txs);
        match r {
            Some(RefResponse::Announce { peers, .. }) => {
                if peers.len() + 1 < max_response_peers.min(target) {
                    f.push(Finding { sig: format!("udp/{}/announce-short-list", backend), what: format!("{} peers returned with limit {} and {} others", peers.len(), max_response_peers, target), detail: json!({"config": cfg}) });
                }
            }
            other => {
                // control: a small request is still answered => the reply did not fit
                let txc = 990_000 + target as i32;
                let alive = udp_rt(&sock, dst, &ann(60_001, txc, 1, 2), v4, txc).is_some();
                if alive {
                    f.push(Finding {
                        sig: format!("udp/{}/{}/announce-reply-dropped", backend, fam),
                        what: format!("[udp {} {}] configuration max_response_peers={} accepted at start-up, swarm of {} others, announce asking for all peers gets no reply ({:?}) while a small announce is answered: reply of {} bytes does not fit the send buffer", backend, fam, max_response_peers, target, other.map(|_| "other kind"), 20 + if v4 { 6 } else { 18 } * max_response_peers.min(target)),
                        detail: json!({"tracker": "udp", "backend": backend, "family": fam, "config": cfg, "others": target}),
                    });
                } else {
                    machinery_failure("udp tracker stopped answering");
                }
            }
        }
    }
    // longest scrape the request path accepts
    if max_scrape_torrents > 0 {
        cases += 1;
        let n = max_scrape_torrents as usize;
        let tx = 800_000;
        let req = ref_encode_request(&RefRequest::Scrape { connection_id: cid, transaction_id: tx, info_hashes: (0..n).map(|i| [i as u8; 20]).collect() });
        match udp_rt(&sock, dst, &req, v4, tx) {
            Some(RefResponse::Scrape { stats, .. }) if stats.len() == n => {}
            other => {
                // control of the same byte length: an announce padded with extension bytes
                let txc = 800_001;
                let mut c = ann(60_002, txc, 1, 2);
                c.extend(std::iter::repeat(0u8).take(req.len().saturating_sub(98)));
                let control = udp_rt(&sock, dst, &c, v4, txc).is_some();
                if control {
                    f.push(Finding {
                        sig: format!("udp/{}/scrape-reply-dropped", backend),
                        what: format!("[udp {}] configuration max_scrape_torrents={} accepted at start-up; scrape of {} hashes ({} bytes) gets {} while a request of the same length with a small reply is answered: reply of {} bytes does not fit the send buffer", backend, max_scrape_torrents, n, req.len(), if other.is_some() { "a wrong reply" } else { "no reply" }, 8 + 12 * n),
                        detail: json!({"tracker": "udp", "backend": backend, "config": cfg}),
                    });
                }
                // control unanswered too: the request itself did not fit the receive buffer, although it is the longest scrape
                // this configuration allows (max_scrape_torrents hashes)
                if !control {
                    let alive = udp_rt(&sock, dst, &ann(60_003, 800_002, 1, 2), v4, 800_002).is_some();
                    if alive {
                        f.push(Finding {
                            sig: format!("udp/{}/scrape-request-dropped", backend),
                            what: format!("[udp {} {}] configuration max_scrape_torrents={} accepted at start-up; a scrape of exactly {} hashes ({} bytes) gets no reply, and neither does another request of the same length, while a small announce is answered: the receive buffer does not hold the longest scrape the configuration allows", backend, fam, max_scrape_torrents, n, req.len()),
                            detail: json!({"tracker": "udp", "backend": backend, "family": fam, "config": cfg}),
                        });
                    } else {
                        machinery_failure("udp tracker stopped answering");
                    }
                }
            }
        }
    }
    (cases, f, "served".into())
}

fn http_config(max_peers: usize, max_scrape_torrents: usize, v4: bool, default_cfg: bool) -> (u64, Vec<Finding>, String) {
    let mut f = Vec::new();
    let cfg = if default_cfg { json!({}) } else { json!({"protocol": {"max_peers": max_peers, "max_scrape_torrents": max_scrape_torrents}}) };
    let mut t = TrackerChild::spawn("http", cfg.clone(), &[]);
    if !t.wait_ready(30) {
        let line = t.line_with_wait("RUN-RETURNED", 3000).unwrap_or_default();
        if t.exited().is_some() && line.contains("RUN-RETURNED Err") {
            return (1, f, format!("refused: {}", line));
        }
        machinery_failure(&format!("http tracker neither ready nor refused: {:?}", line));
    }
    let ip: IpAddr = if v4 { IpAddr::V4(Ipv4Addr::LOCALHOST) } else { IpAddr::V6(Ipv6Addr::LOCALHOST) };
    let addr = SocketAddr::new(ip, t.port);
    if !wait_tcp(addr, 8) {
        machinery_failure("http tracker does not accept connections on the family under test");
    }
    let fam = if v4 { "ipv4" } else { "ipv6" };
    let mut cases = 0;
    let rt = |conn: &mut Option<HttpConn>, req: &[u8]| -> Result<HttpReply, HttpErr> {
        if conn.is_none() {
            *conn = HttpConn::connect(addr);
        }
        let c = conn.as_mut().ok_or(HttpErr::Closed(0))?;
        if !c.send(req) {
            *conn = None;
            return Err(HttpErr::Closed(0));
        }
        let r = c.read_reply();
        if r.is_err() {
            *conn = None;
        }
        r
    };
    let mut conn: Option<HttpConn> = None;
    // ---- announce: fill to L and L+1 others (only when a non-default limit is under test)
    let h = [0x11u8; 20];
    let mut filled = 0usize;
    for target in [max_peers, max_peers + 1] {
        while filled < target {
            let p = http_announce_path(&h, &[2; 20], 1000 + filled as u16, 1, "started", Some(1), 0);
            if rt(&mut conn, &http_get(&p, "")).is_err() {
                machinery_failure("http fill announce failed");
            }
            filled += 1;
        }
        cases += 1;
        let p = http_announce_path(&h, &[3; 20], 60_000, 1, "stopped", None, 0);
        let req = http_get(&p, "");
        match rt(&mut conn, &req) {
            Ok(r) if r.status_line.starts_with("HTTP/1.1 200") && bencode::decode(&r.body[..r.body.len().saturating_sub(2)]).is_ok() => {}
            other => {
                let pc = http_announce_path(&[0x12; 20], &[3; 20], 60_000, 1, "stopped", Some(1), 0);
                let control = rt(&mut conn, &http_get(&pc, "")).is_ok();
                if control {
                    f.push(Finding {
                        sig: format!("http/{}/announce-reply-lost", fam),
                        what: format!("[http {}] configuration max_peers={} accepted at start-up, swarm of {} others, announce asking for all peers: {:?} while a small announce is answered: the reply does not fit the response buffer", fam, max_peers, target, other.err()),
                        detail: json!({"tracker": "http", "family": fam, "config": cfg, "others": target}),
                    });
                } else {
                    machinery_failure("http tracker stopped answering");
                }
            }
        }
    }
    // ---- scrape: for every number of hashes that the request buffer takes
    let limit = max_scrape_torrents;
    let mut n = 1usize;
    let mut largest_answered = 0;
    loop {
        let hashes: Vec<String> = (0..n).map(|i| format!("info_hash={:020}", i)).collect();
        let path = format!("/scrape?{}", hashes.join("&"));
        let req = http_get(&path, "");
        if req.len() > 2047 {
            break;
        }
        cases += 1;
        match rt(&mut conn, &req) {
            Ok(r) if r.status_line.starts_with("HTTP/1.1 200") => {
                let ok = bencode::decode(&r.body[..r.body.len().saturating_sub(2)]).ok().and_then(|b| b.get("files").map(|f| matches!(f, bencode::B::Dict(d) if d.len() == n.min(limit)))).unwrap_or(false);
                if !ok {
                    f.push(Finding { sig: "http/scrape/entries".into(), what: format!("scrape of {} hashes with max_scrape_torrents={} is not answered with {} entries", n, limit, n.min(limit)), detail: json!({"config": cfg}) });
                }
                largest_answered = n;
            }
            other => {
                // control: identical length, two hashes, the rest padding in an ignored parameter
                let base_len = http_get("/scrape?info_hash=00000000000000000000&info_hash=00000000000000000001&pad=", "").len();
                if req.len() < base_len {
                    // a one- or two-hash scrape must always be answered
                    f.push(Finding { sig: "http/small-scrape-unanswered".into(), what: format!("scrape of {} hashes not answered: {:?}", n, other.err()), detail: json!({"config": cfg}) });
                    n += 1;
                    continue;
                }
                let pad = req.len() - base_len;
                let cpath = format!("/scrape?info_hash=00000000000000000000&info_hash=00000000000000000001&pad={}", "p".repeat(pad));
                let creq = http_get(&cpath, "");
                assert_eq!(creq.len(), req.len());
                let control = rt(&mut conn, &creq).is_ok();
                if control {
                    f.push(Finding {
                        sig: format!("http/scrape-reply-lost/{}", if default_cfg { "default-config" } else { "custom-config" }),
                        what: format!("[http{}] scrape of {} hashes ({}-byte request, accepted: a request of identical length with 2 hashes is answered) gets {:?} instead of a reply; largest answered scrape had {} hashes: the reply does not fit the response buffer", if default_cfg { ", default configuration" } else { "" }, n, req.len(), other.err(), largest_answered),
                        detail: json!({"tracker": "http", "config": cfg, "hashes": n, "max_scrape_torrents": limit}),
                    });
                    break;
                }
            }
        }
        n += 1;
    }
    (cases, f, format!("served; largest scrape answered: {} hashes", largest_answered))
}

/// Next message satisfying `pred` within `total_ms` (other messages - late replies to earlier requests - are skipped);
/// None when the deadline passes or the connection is closed.
fn recv_matching(c: &mut WsConn, total_ms: u64, pred: impl Fn(&str) -> bool) -> Option<String> {
    let end = std::time::Instant::now() + std::time::Duration::from_millis(total_ms);
    loop {
        let left = end.saturating_duration_since(std::time::Instant::now()).as_millis() as u64;
        if left == 0 {
            return None;
        }
        match c.recv_text_or_closed(left.min(2000)) {
            Ok(Some(x)) if pred(&x) => return Some(x),
            Ok(_) => continue,
            Err(()) => return None,
        }
    }
}

/// WebTorrent tracker: the largest messages a configuration makes the tracker send - a forwarded offer and answer as large
/// as websocket_max_message_size admits, a scrape reply for max_scrape_torrents torrents per swarm worker with identifiers
/// that take six JSON bytes per character - must arrive whole, whatever websocket_write_buffer_size is.
fn ws_config(write_buffer: usize, max_message: usize, max_scrape: usize, swarm_workers: u8) -> (u64, Vec<Finding>, String) {
    use crate::props::c17::send_fragmented;
    let label = format!("ws websocket_write_buffer_size={} websocket_max_message_size={} max_scrape_torrents={} swarm_workers={}", write_buffer, max_message, max_scrape, swarm_workers);
    let cfg = json!({"socket_workers": 1, "swarm_workers": swarm_workers, "network": {"address": "127.0.0.1:PORT", "websocket_write_buffer_size": write_buffer, "websocket_max_message_size": max_message}, "protocol": {"max_scrape_torrents": max_scrape}, "cleaning": {"max_peer_age": 100000, "max_offer_age": 100000, "torrent_cleaning_interval": 100000, "max_connection_idle": 100000}});
    let mut t = TrackerChild::spawn("ws", cfg, &[]);
    if !t.wait_ready(60) {
        return (0, vec![], format!("refused: {}", t.line_with_wait("RUN-RETURNED", 500).unwrap_or_default()));
    }
    let addr = SocketAddr::new(IpAddr::V4(Ipv4Addr::LOCALHOST), t.port);
    let mut fs = Vec::new();
    let mut cases = 0;
    let hash = |i: usize, tag: u8| -> String {
        // control characters only: six JSON bytes per character
        let mut h = [1u8; 20];
        h[0] = (i % 31) as u8 + 1;
        h[1] = ((i / 31) % 31) as u8 + 1;
        h[2] = (i / 961) as u8 + 1;
        h[3] = tag;
        id20(&h)
    };
    let pid = |p: u8| id20(&[b'A' + p; 20]);
    let offer_msg = |sdp: usize, k: u8| json!({"action": "announce", "info_hash": hash(0, 14 + k), "peer_id": pid(2 + 2 * k), "numwant": 1, "left": 1, "offers": [{"offer_id": id20(&[b'o'; 20]), "offer": {"type": "offer", "sdp": "s".repeat(sdp)}}]}).to_string();
    let answer_msg = |sdp: usize, k: u8| json!({"action": "announce", "info_hash": hash(0, 14 + k), "peer_id": pid(1 + 2 * k), "numwant": 0, "left": 1, "answer": {"type": "answer", "sdp": "t".repeat(sdp)}, "to_peer_id": pid(2 + 2 * k), "offer_id": id20(&[b'o'; 20])}).to_string();
    let overhead = offer_msg(0, 0).len().max(answer_msg(0, 0).len());
    // the largest SDP whose announce is still accepted, one less, and half of it
    // every size in its own torrent with its own peer ids: the connections of the previous size are dropped without waiting for the
    // tracker to notice, and an announce that reuses a peer id still owned by a dying connection is rightly ignored (C08)
    for (k, sdp) in [max_message - overhead, max_message - overhead - 1, (max_message - overhead) / 2].into_iter().enumerate() {
        let k = k as u8;
        cases += 1;
        let (Some(mut a), Some(mut b)) = (WsConn::connect_patiently(addr), WsConn::connect_patiently(addr)) else {
            machinery_failure(&format!("{}: could not connect", label));
        };
        let detail = json!({"configuration": label, "sdp_bytes": sdp});
        a.send_text(json!({"action": "announce", "info_hash": hash(0, 14 + k), "peer_id": pid(1 + 2 * k), "numwant": 0, "left": 1, "event": "started"}).to_string());
        // the receiver has to be stored before the offer is sent: its announce reply is awaited patiently (no time is part of
        // this property; a reply that arrives late must not be mistaken for the forwarded offer below)
        if recv_matching(&mut a, 30_000, |x| x.contains("\"complete\"")).is_none() {
            machinery_failure(&format!("{}: the receiving peer's own announce was not answered within 30 s", label));
        }
        send_fragmented(&mut b, &offer_msg(sdp, k));
        let b_reply = recv_matching(&mut b, 15_000, |x| x.contains("\"complete\"")).is_some();
        let offer_ok = recv_matching(&mut a, 15_000, |x| x.contains("\"offer\"") && x.matches('s').count() >= sdp).is_some();
        a.send_text(json!({"action": "scrape", "info_hash": hash(1, 9)}).to_string());
        let a_alive = recv_matching(&mut a, 15_000, |x| x.contains("\"files\"")).is_some();
        if !b_reply || !offer_ok || !a_alive {
            fs.push(Finding { sig: "ws/largest-offer-not-delivered".into(), what: format!("[{}] announce of {} bytes (the largest accepted) with one offer: sender answered: {}, offer delivered whole: {}, receiver's connection usable: {}", label, offer_msg(sdp, k).len(), b_reply, offer_ok, a_alive), detail });
            continue;
        }
        send_fragmented(&mut a, &answer_msg(sdp, k));
        let answer_ok = recv_matching(&mut b, 15_000, |x| x.contains("\"answer\"") && x.matches('t').count() >= sdp).is_some();
        b.send_text(json!({"action": "scrape", "info_hash": hash(1, 9)}).to_string());
        let b_alive = recv_matching(&mut b, 15_000, |x| x.contains("\"files\"")).is_some();
        if !answer_ok || !b_alive {
            fs.push(Finding { sig: "ws/largest-answer-not-delivered".into(), what: format!("[{}] answer of {} SDP bytes: delivered whole: {}, offerer's connection usable: {}", label, sdp, answer_ok, b_alive), detail });
        }
    }
    // scrape: as many torrents as the limit and the request size admit, every one with a peer
    let per_hash_in_request = 20 * 6 + 3;
    let n = max_scrape.min((max_message - 64) / per_hash_in_request);
    if n >= 1 {
        cases += 1;
        let Some(mut c) = WsConn::connect_patiently(addr) else {
            machinery_failure(&format!("{}: could not connect", label));
        };
        let mut hashes = Vec::new();
        for i in 0..n {
            hashes.push(hash(i, 3));
            c.send_text(json!({"action": "announce", "info_hash": hash(i, 3), "peer_id": pid(9), "numwant": 0, "left": 1, "event": "started"}).to_string());
            if recv_matching(&mut c, 30_000, |x| x.contains("\"complete\"")).is_none() {
                machinery_failure(&format!("{}: announce {} of the scrape preparation was not answered within 30 s", label, i));
            }
        }
        let req = json!({"action": "scrape", "info_hash": hashes}).to_string();
        send_fragmented(&mut c, &req);
        let r = recv_matching(&mut c, 20_000, |x| x.contains("\"files\""));
        let files = r.as_ref().and_then(|x| serde_json::from_str::<serde_json::Value>(x).ok()).and_then(|v| v.get("files").and_then(|f| f.as_object().map(|o| o.len())));
        c.send_text(json!({"action": "scrape", "info_hash": hash(1, 9)}).to_string());
        let alive = recv_matching(&mut c, 15_000, |x| x.contains("\"files\"")).is_some();
        if files != Some(n) || !alive {
            fs.push(Finding { sig: "ws/largest-scrape-unanswered".into(), what: format!("[{}] scrape of {} torrents that all have a peer (request {} bytes): reply lists {:?} ({} bytes); connection usable afterwards: {}", label, n, req.len(), files, r.map(|x| x.len()).unwrap_or(0), alive), detail: json!({"configuration": label, "scrape_torrents": n}) });
        }
    }
    (cases, fs, "served".into())
}

pub fn main(args: &Args) -> ! {
    let mut run = Run::new(args, "exploration");
    run.set("rule", "per tracker, backend and family: configuration values of max_response_peers / max_peers / max_scrape_torrents (quick: 0, 1, the defaults and both sides of every buffer threshold; thorough: every value 0..=600 plus the IPv4 thresholds); for each value the tracker is started through run() or observed to refuse the configuration, the swarm is filled to exactly the limit and to limit+1, and the worst-case accepted request is sent; HTTP scrapes of every hash count the request buffer admits, each paired with a control request of identical length and small reply; WebTorrent: websocket_write_buffer_size x websocket_max_message_size x max_scrape_torrents x swarm workers, the largest accepted offer / answer and the largest scrape each configuration admits. A case is one (tracker, backend, family, value, request); distinct_nontrivial = distinct configurations served");
    run.assume("requests the request path does not accept are out of scope here (C06 / C16)");
    let th = args.tier.thorough();
    #[derive(Clone)]
    enum Job {
        Udp(bool, usize, u8, bool),
        Http(usize, usize, bool, bool),
        Ws(usize, usize, usize, u8),
    }
    let mut jobs: Vec<Job> = Vec::new();
    let udp_l: Vec<usize> = if th { (0..=600).chain([1000, 1360, 1361, 1362, 1363, 1364, 5000]).collect() } else { vec![0, 1, 30, 112, 113, 337, 338, 339, 454, 455, 456] };
    for uring in [false, true] {
        for l in &udp_l {
            for v4 in [false, true] {
                // IPv4 thresholds are three times higher: only probe large values there
                if v4 && *l < 300 && !(*l <= 1 || *l == 30) {
                    continue;
                }
                jobs.push(Job::Udp(uring, *l, 70, v4));
            }
        }
        if th {
            for l in [1361usize, 1362, 1363] {
                jobs.push(Job::Udp(uring, l, 70, true));
            }
        }
        // (quick: both sides of the response-buffer threshold 170 and of the request-buffer threshold around 100)
        let ss: Vec<u8> = if th { (0..=255).collect() } else { vec![0, 1, 70, 98, 99, 100, 101, 102, 103, 169, 170, 171, 255] };
        for s in ss {
            jobs.push(Job::Udp(uring, 30, s, false));
            if th || (98..=103).contains(&s) {
                jobs.push(Job::Udp(uring, 30, s, true));
            }
        }
    }
    jobs.push(Job::Http(50, 100, true, true));
    jobs.push(Job::Http(50, 100, false, true));
    let http_l: Vec<usize> = if th { (0..=260).chain([600, 650, 660, 670, 700]).collect() } else { vec![0, 1, 50, 215, 218, 221, 224] };
    for l in http_l {
        jobs.push(Job::Http(l, 100, false, false));
        if l >= 600 || l <= 1 || l == 50 {
            jobs.push(Job::Http(l, 100, true, false));
        }
    }
    for s in if th { vec![0usize, 1, 2, 40, 56, 57, 58, 64, 65, 66, 100, 255, 1000] } else { vec![0, 1, 57, 58, 66, 1000] } {
        jobs.push(Job::Http(50, s, true, false));
    }

    // WebTorrent: write buffer x message size limit x scrape limit x swarm workers (quick: the defaults and each value on its own)
    let (wbs, mms, mst) = ([1024usize, 8192, 65536], [16384usize, 65536, 262144], [1usize, 255, 1000]);
    if th {
        for w in wbs {
            for m in mms {
                for s in mst {
                    for wm in [1u8, 3] {
                        jobs.push(Job::Ws(w, m, s, wm));
                    }
                }
            }
        }
    } else {
        jobs.push(Job::Ws(8192, 65536, 255, 1));
        jobs.push(Job::Ws(8192, 65536, 255, 3));
        for w in [1024usize, 65536] {
            jobs.push(Job::Ws(w, 65536, 255, 1));
        }
        for m in [16384usize, 262144] {
            jobs.push(Job::Ws(8192, m, 255, 1));
        }
        for s in [1usize, 1000] {
            jobs.push(Job::Ws(8192, 65536, s, 3));
        }
    }

    let results: Vec<(u64, Vec<Finding>, String, String)> = par_map(&jobs, num_threads().min(12), |j| match j {
        Job::Udp(u, l, s, v4) => {
            let (c, f, o) = udp_config(*u, *l, *s, *v4);
            (c, f, o, format!("udp {} max_response_peers={} max_scrape_torrents={} {}", if *u { "io_uring" } else { "mio" }, l, s, if *v4 { "v4" } else { "v6" }))
        }
        Job::Http(l, s, v4, d) => {
            let (c, f, o) = http_config(*l, *s, *v4, *d);
            (c, f, o, format!("http max_peers={} max_scrape_torrents={} {}{}", l, s, if *v4 { "v4" } else { "v6" }, if *d { " (default config)" } else { "" }))
        }
        Job::Ws(w, m, s, wm) => {
            let (c, f, o) = ws_config(*w, *m, *s, *wm);
            (c, f, o, format!("ws websocket_write_buffer_size={} websocket_max_message_size={} max_scrape_torrents={} swarm_workers={}", w, m, s, wm))
        }
    });
    // a configuration with findings is run again on its own (the sweep runs a dozen trackers side by side): only what shows
    // again in isolation is reported, with the isolated run's wording
    let mut results = results;
    let mut reruns = 0u64;
    let mut not_reproduced: Vec<String> = Vec::new();
    for (i, j) in jobs.iter().enumerate() {
        if results[i].1.is_empty() {
            continue;
        }
        reruns += 1;
        let (_, f2, _) = match j {
            Job::Udp(u, l, s, v4) => udp_config(*u, *l, *s, *v4),
            Job::Http(l, s, v4, d) => http_config(*l, *s, *v4, *d),
            Job::Ws(w, m, s, wm) => ws_config(*w, *m, *s, *wm),
        };
        let first: Vec<String> = results[i].1.iter().map(|f| f.sig.clone()).collect();
        for sig in &first {
            if !f2.iter().any(|f| &f.sig == sig) {
                not_reproduced.push(format!("{} [{}]", sig, results[i].3));
            }
        }
        results[i].1 = f2.into_iter().filter(|f| first.contains(&f.sig)).collect();
    }
    run.set("configurations_rerun_in_isolation", reruns);
    run.set("findings_not_reproduced_in_isolation", json!(not_reproduced));
    let mut cases = 0;
    let mut served = 0;
    let mut refused = 0;
    for (c, fs, outcome, label) in results {
        cases += c;
        if outcome.starts_with("refused") {
            refused += 1;
        } else {
            served += 1;
        }
        if run.want_sample() && (refused + served) % 9 == 1 {
            run.sample(json!({"configuration": label, "outcome": outcome}));
        }
        for f in fs {
            run.violation(f.sig, f.what, f.detail);
        }
    }
    run.set("evaluations", cases);
    run.set("configurations", served + refused);
    run.set("configurations_served", served);
    run.set("configurations_refused_at_startup", refused);
    run.set("distinct_nontrivial", served + refused);
    run.set("exhaustive", true);
    run.finish();
}
