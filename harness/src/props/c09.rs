//! C09 — WebRTC offers and answers are relayed only along real, unused offers (seqmc).

use crate::common::*;
use crate::seqmc::{self, Limits};
use crate::ws_sys::*;

pub fn systems(tier: Tier) -> Vec<(WsSys, Limits, bool)> {
    let th = num_threads();
    let wall = if tier.thorough() { 1200.0 } else { 100.0 };
    let mut v = Vec::new();
    // F1: two peers, one torrent, one offer id: to fixpoint (offer -> answer -> replay, expiry by clean, stop / close of the offerer)
    v.push((
        WsSys(WsAlphabet {
            name: "F1-2peer-fixpoint",
            opts: WsOpts { conns: vec![(0, K1, true), (1, K1, true)], hashes: vec![0], max_offers: 1, max_peer_age: 2, max_offer_age: 1, ..Default::default() },
            peers: 2,
            peer_is_conn: true,
            kinds: vec![WsKind::Leech, WsKind::Stop],
            offer_sets: vec![vec![1], vec![1, 2]],
            answers: vec![(0, 1), (1, 1), (0, 2)],
            scrapes: vec![],
            clock_max: 2,
            clean: true,
            closes: true,
            reloads: vec![],
        }),
        Limits { max_depth: 64, max_states: 3_000_000, max_wall_s: wall, threads: th },
        true,
    ));
    // F2: three peers (+ an unknown addressee), two torrents, repeated offer ids within and across announces,
    // answers from the right peer / a wrong peer / for the wrong torrent / twice / after ageing; max_offers 2
    v.push((
        WsSys(WsAlphabet {
            name: "F2-3peer-2torrents",
            opts: WsOpts { conns: vec![(0, K1, true), (1, K1, true), (0, K2, true)], hashes: vec![0, 1], max_offers: 2, max_peer_age: 4, max_offer_age: 2, ..Default::default() },
            peers: 3,
            peer_is_conn: true,
            kinds: vec![WsKind::Leech, WsKind::Seed, WsKind::Stop],
            offer_sets: vec![vec![1], vec![1, 1], vec![1, 2], vec![1, 2, 1]],
            answers: vec![(0, 1), (1, 1), (2, 1), (UNKNOWN_PEER, 1), (0, 2), (1, 2), (2, 2), (0, 3)],
            scrapes: vec![],
            clock_max: 5,
            clean: true,
            closes: true,
            reloads: vec![],
        }),
        Limits { max_depth: if tier.thorough() { 6 } else { 5 }, max_states: 6_000_000, max_wall_s: wall, threads: th },
        false,
    ));
    // F3: max_offers 1 with four peers on one torrent (more candidates than offers), one connection using a second
    // peer id is refused by the socket rule; deeper
    v.push((
        WsSys(WsAlphabet {
            name: "F3-4peer-maxoffers1",
            opts: WsOpts { conns: vec![(0, K1, true), (1, K1, true), (0, K2, true), (1, K2, true)], hashes: vec![0], max_offers: 1, max_peer_age: 4, max_offer_age: 2, ..Default::default() },
            peers: 4,
            peer_is_conn: true,
            kinds: vec![WsKind::Leech, WsKind::Stop],
            offer_sets: vec![vec![1], vec![1, 2]],
            answers: vec![(0, 1), (1, 1), (2, 1), (3, 1)],
            scrapes: vec![],
            clock_max: 3,
            clean: true,
            closes: false,
            reloads: vec![],
        }),
        Limits { max_depth: if tier.thorough() { 8 } else { 6 }, max_states: 6_000_000, max_wall_s: wall, threads: th },
        false,
    ));
    v
}

/// F4: the life of several offers of one offerer, from a state in which three peers are already stored. The offerer sends
/// two offers together and a third one later; the receivers answer in every order, with clock ticks and cleaning passes
/// at every position. (Answering an early offer reorders what the tracker keeps for the later ones; expiry must not depend
/// on that order.)
pub struct OfferLifecycle {
    pub name: &'static str,
    pub opts: WsOpts,
    pub prefix: Vec<WsEv>,
    pub clock_max: u32,
    pub offer_sets: Vec<Vec<u8>>,
    pub answer_ids: Vec<u8>,
    pub answerers: Vec<u8>,
}

impl seqmc::Sys<WsEv> for OfferLifecycle {
    type W = WsWorld;
    fn name(&self) -> String {
        self.name.to_string()
    }
    fn tag(&self) -> &'static str {
        "seqmc-ws"
    }
    fn fresh(&self) -> WsWorld {
        use crate::seqmc::World;
        let mut w = WsWorld::new(self.opts.clone());
        for e in &self.prefix {
            let _ = w.apply(e);
        }
        w
    }
    fn events(&self, w: &WsWorld) -> Vec<WsEv> {
        let mut evs = Vec::new();
        if w.clock < self.clock_max {
            evs.push(WsEv::Tick);
        }
        evs.push(WsEv::Clean);
        for os in &self.offer_sets {
            evs.push(WsEv::Ann { conn: 0, peer: 0, h: 0, kind: WsKind::Leech, offers: os.clone(), answer: None });
        }
        for a in &self.answerers {
            for id in &self.answer_ids {
                evs.push(WsEv::Ann { conn: *a, peer: *a, h: 0, kind: WsKind::Leech, offers: vec![], answer: Some((0, *id)) });
            }
        }
        evs
    }
}

pub fn lifecycle_systems(tier: Tier) -> Vec<(OfferLifecycle, Limits, bool)> {
    let th = num_threads();
    let wall = if tier.thorough() { 1200.0 } else { 100.0 };
    let ann = |c: u8| WsEv::Ann { conn: c, peer: c, h: 0, kind: WsKind::Leech, offers: vec![], answer: None };
    vec![(
        OfferLifecycle {
            name: "F4-offer-lifecycle",
            opts: WsOpts { conns: vec![(0, K1, true), (1, K1, true), (0, K2, true)], hashes: vec![0], max_offers: 2, max_peer_age: 50, max_offer_age: 2, ..Default::default() },
            prefix: vec![ann(0), ann(1), ann(2)],
            clock_max: 4,
            offer_sets: vec![vec![1, 2], vec![3]],
            answer_ids: vec![1, 2, 3],
            answerers: vec![1, 2],
        },
        Limits { max_depth: if tier.thorough() { 16 } else { 11 }, max_states: 6_000_000, max_wall_s: wall, threads: th },
        false,
    )]
}

pub fn main(args: &Args) -> ! {
    let mut run = Run::new(args, "model_checking");
    run.set("engine", "seqmc: BFS over event histories on aquatic_ws's swarm storage (hook H5), mock clock (H1); oracle on the (OutMessageMeta, OutMessage) list of every announce");
    run.set("exhaustive", true);
    run.assume("which stored peers receive the offers is the implementation's (random) choice: the oracle checks legality of the choice and follows it");
    if let Some(p) = &args.replay {
        let r = load_replay(p);
        let systems: Vec<WsSys> = systems(Tier::Thorough).into_iter().map(|x| x.0).collect();
        let lifecycle: Vec<OfferLifecycle> = lifecycle_systems(Tier::Thorough).into_iter().map(|x| x.0).collect();
        if !seqmc::replay_from_file(&mut run, &r, &systems) && !seqmc::replay_from_file(&mut run, &r, &lifecycle) {
            machinery_failure("replay file does not belong to this check");
        }
        run.finish();
    }
    for (s, lim, need_fix) in systems(args.tier) {
        seqmc::run_bfs(&mut run, &s, &lim, need_fix);
    }
    for (s, lim, need_fix) in lifecycle_systems(args.tier) {
        seqmc::run_bfs(&mut run, &s, &lim, need_fix);
    }
    run.finish();
}
