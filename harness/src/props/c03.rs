//! C03 — Stored peer addresses are the real source addresses
//! (direct enumeration of the canonicalisation functions and of reverse-proxy header layouts;
//! end-to-end over socket configurations x source addresses x in-request address fields).

use std::collections::BTreeSet;
use std::net::{IpAddr, Ipv4Addr, Ipv6Addr, SocketAddr, SocketAddrV6, UdpSocket};
use std::time::{Duration, Instant};

use aquatic_common::CanonicalSocketAddr;
use serde_json::json;

use crate::bencode;
use crate::common::*;
use crate::netmc::*;
use crate::props::c13::{ref_decode_response, ref_encode_request, RefAnnounce, RefRequest, RefResponse};

type V = (String, String, serde_json::Value);

fn direct(run: &mut Run) -> u64 {
    let mut n = 0;
    let v4s = [Ipv4Addr::new(0, 0, 0, 0), Ipv4Addr::new(127, 0, 0, 1), Ipv4Addr::new(10, 1, 2, 3), Ipv4Addr::new(192, 0, 2, 2), Ipv4Addr::new(255, 255, 255, 255), Ipv4Addr::new(1, 2, 3, 4)];
    let mut v6s: Vec<Ipv6Addr> = vec![Ipv6Addr::UNSPECIFIED, Ipv6Addr::LOCALHOST, "fd00::2".parse().unwrap(), "2001:db8::1".parse().unwrap(), "::fffe:1.2.3.4".parse().unwrap(), "::1.2.3.4".parse().unwrap(), "64:ff9b::1.2.3.4".parse().unwrap()];
    // near misses of the mapped prefix: each of the 12 prefix bytes perturbed in turn
    for i in 0..12 {
        let mut o = Ipv4Addr::new(1, 2, 3, 4).to_ipv6_mapped().octets();
        o[i] ^= 0x01;
        v6s.push(Ipv6Addr::from(o));
        let mut o2 = Ipv4Addr::new(1, 2, 3, 4).to_ipv6_mapped().octets();
        o2[i] ^= 0x80;
        v6s.push(Ipv6Addr::from(o2));
    }
    for port in [1u16, 80, 65535, 0] {
        for a in &v4s {
            n += 3;
            let plain = SocketAddr::new(IpAddr::V4(*a), port);
            let c = CanonicalSocketAddr::new(plain);
            if c.get() != plain || !c.is_ipv4() || c.get_ipv4() != Some(plain) {
                run.violation("canonical/v4-changed", format!("CanonicalSocketAddr::new({}) = {:?}", plain, c), json!({"addr": plain.to_string()}));
            }
            let mapped = SocketAddr::V6(SocketAddrV6::new(a.to_ipv6_mapped(), port, 7, 9));
            let cm = CanonicalSocketAddr::new(mapped);
            if cm.get() != plain || !cm.is_ipv4() {
                run.violation("canonical/mapped-not-converted", format!("CanonicalSocketAddr::new({}) = {:?}, expected the embedded IPv4 address {}", mapped, cm, plain), json!({"addr": mapped.to_string()}));
            }
            if c.get_ipv6_mapped().ip() != IpAddr::V6(a.to_ipv6_mapped()) || c.get_ipv6_mapped().port() != port {
                run.violation("canonical/get-ipv6-mapped", format!("get_ipv6_mapped of {} = {}", plain, c.get_ipv6_mapped()), json!({"addr": plain.to_string()}));
            }
            if !matches!(aquatic_ws::common::IpVersion::canonical_from_ip(IpAddr::V4(*a)), aquatic_ws::common::IpVersion::V4) || !matches!(aquatic_ws::common::IpVersion::canonical_from_ip(IpAddr::V6(a.to_ipv6_mapped())), aquatic_ws::common::IpVersion::V4) {
                run.violation("canonical/ws-ip-version", format!("ws IpVersion of {} / its mapped form is not V4", a), json!({"addr": a.to_string()}));
            }
        }
        for a in &v6s {
            n += 2;
            let sa = SocketAddr::V6(SocketAddrV6::new(*a, port, 0, 0));
            let c = CanonicalSocketAddr::new(sa);
            if c.get() != sa || c.is_ipv4() || c.get_ipv4().is_some() || c.get_ipv6_mapped() != sa {
                run.violation("canonical/v6-changed", format!("CanonicalSocketAddr::new({}) = {:?}: only ::ffff:a.b.c.d is an IPv4 address", sa, c), json!({"addr": sa.to_string()}));
            }
            if !matches!(aquatic_ws::common::IpVersion::canonical_from_ip(IpAddr::V6(*a)), aquatic_ws::common::IpVersion::V6) {
                run.violation("canonical/ws-ip-version", format!("ws IpVersion of {} is not V6", a), json!({"addr": a.to_string()}));
            }
        }
    }
    n
}

/// reverse proxy header layouts through the socket worker's own request parser
fn proxy_headers(run: &mut Run, th: bool) -> u64 {
    let mut n = 0;
    let mut cfg = aquatic_http::config::Config::default();
    cfg.network.runs_behind_reverse_proxy = true;
    cfg.network.reverse_proxy_ip_header_name = "X-Forwarded-For".into();
    let path = http_announce_path(&[1; 20], &[2; 20], 7777, 1, "started", None, 0);
    let values: Vec<(&str, IpAddr)> = vec![("203.0.113.7", "203.0.113.7".parse().unwrap()), ("2001:db8::7", "2001:db8::7".parse().unwrap()), ("::ffff:198.51.100.9", "::ffff:198.51.100.9".parse().unwrap()), ("10.0.0.1", "10.0.0.1".parse().unwrap()), ("2001:db8::1:2", "2001:db8::1:2".parse().unwrap()), ("fe80::a:b:c:d", "fe80::a:b:c:d".parse().unwrap())];
    let ws = ["", " ", "\t", " \t "];
    let others = ["User-Agent: x\r\n", "X-Forwarded-Host: 9.9.9.9\r\n", "x-forwarded-for-not: 8.8.8.8\r\n"];
    // occurrences 1..=3, values per occurrence 1..=3
    // HTTP field names are case-insensitive: occurrence o is spelled names[(o + case) % 3]; case 0 = as configured throughout
    let names = ["X-Forwarded-For", "x-forwarded-for", "X-FORWARDED-FOR"];
    for case in 0..3usize {
    let top = if th { 5usize } else { 3 };
    for occ in 1..=top {
        for per in 1..=top {
            for (wi, w) in ws.iter().enumerate() {
                for shift in 0..values.len() {
                    for other_pos in 0..=occ {
                        let mut headers = String::new();
                        let mut last: Option<IpAddr> = None;
                        let mut k = shift;
                        for o in 0..occ {
                            if o == other_pos {
                                headers.push_str(others[(o + wi) % others.len()]);
                            }
                            let vals: Vec<String> = (0..per)
                                .map(|_| {
                                    k += 1;
                                    let (s, ip) = values[k % values.len()];
                                    last = Some(ip);
                                    format!("{}{}{}", w, s, w)
                                })
                                .collect();
                            let name = if case == 0 { names[0] } else { names[(o + case) % 3] };
                            headers.push_str(&format!("{}:{}\r\n", name, vals.join(",")));
                        }
                        if other_pos == occ {
                            headers.push_str(others[wi % others.len()]);
                        }
                        n += 1;
                        let req = http_get(&path, &headers);
                        let r = std::panic::catch_unwind(|| aquatic_http::verif_request::parse_request(&cfg, &req));
                        let detail = json!({"request": String::from_utf8_lossy(&req)});
                        match r {
                            Ok(Ok((_, Some(ip)))) => {
                                if Some(ip) != last {
                                    run.violation(if case == 0 { "proxy-header/wrong-address" } else { "proxy-header/wrong-address/name-case" }, format!("peer address taken from the header is {}, expected the last value of the last occurrence {} (headers {:?})", ip, last.unwrap(), headers), detail);
                                } else {
                                    // the address goes through CanonicalSocketAddr with the request's port
                                    let c = CanonicalSocketAddr::new(SocketAddr::new(ip, 4242));
                                    if let IpAddr::V6(v6) = ip {
                                        if v6.to_ipv4_mapped().is_some() && !c.is_ipv4() {
                                            run.violation("proxy-header/mapped", "mapped header address not canonicalised".to_string(), detail);
                                        }
                                    }
                                }
                            }
                            other => run.violation(if case == 0 { "proxy-header/rejected" } else { "proxy-header/rejected/name-case" }, format!("well-formed proxy headers {:?} not accepted: {:?}", headers, other.map(|r| r.map(|x| x.1).map_err(|e| e.to_string()))), detail),
                        }
                    }
                }
            }
        }
    }
    }
    n
}

fn udp_rt(sock: &UdpSocket, dst: SocketAddr, bytes: &[u8], v4_reply: bool, tx: i32) -> Option<RefResponse> {
    for _ in 0..3 {
        sock.send_to(bytes, dst).ok()?;
        let t0 = Instant::now();
        while t0.elapsed() < Duration::from_millis(800) {
            let mut buf = [0u8; 4096];
            if let Ok((n, from)) = sock.recv_from(&mut buf) {
                if from.port() == dst.port() && n >= 8 && i32::from_be_bytes(buf[4..8].try_into().unwrap()) == tx {
                    return ref_decode_response(&buf[..n], v4_reply);
                }
            }
        }
    }
    None
}

#[derive(Clone, Debug)]
struct Src {
    /// local address the client binds to
    bind: IpAddr,
    /// address it sends to
    dst: IpAddr,
    /// the network-level source the tracker must store (canonical)
    canonical: IpAddr,
}

fn sources(v4_sock: bool, v6_sock: bool, dual: bool) -> Vec<Src> {
    let mut v = Vec::new();
    let l4 = |a: [u8; 4]| IpAddr::V4(Ipv4Addr::from(a));
    if v4_sock {
        for a in [[127, 0, 0, 1], [127, 0, 0, 2], [192, 0, 2, 2]] {
            v.push(Src { bind: l4(a), dst: if a[0] == 127 { l4([127, 0, 0, 1]) } else { l4(a) }, canonical: l4(a) });
        }
    } else if v6_sock && dual {
        // plain IPv4 clients reach the dual-stack socket as ::ffff:a.b.c.d
        for a in [[127, 0, 0, 1], [127, 0, 0, 3]] {
            v.push(Src { bind: l4(a), dst: l4([127, 0, 0, 1]), canonical: l4(a) });
        }
    }
    if v6_sock {
        v.push(Src { bind: IpAddr::V6(Ipv6Addr::LOCALHOST), dst: IpAddr::V6(Ipv6Addr::LOCALHOST), canonical: IpAddr::V6(Ipv6Addr::LOCALHOST) });
        v.push(Src { bind: "fd00::2".parse().unwrap(), dst: "fd00::2".parse().unwrap(), canonical: "fd00::2".parse().unwrap() });
    }
    v
}

fn udp_e2e(uring: bool, use4: bool, use6: bool, only6: bool) -> (u64, Vec<V>, String) {
    let label = format!("udp {} use_ipv4={} use_ipv6={} set_only_ipv6={}", if uring { "io_uring" } else { "mio" }, use4, use6, only6);
    let cfg = json!({"socket_workers": 1, "network": {"use_io_uring": uring, "use_ipv4": use4, "use_ipv6": use6, "set_only_ipv6": only6}});
    let mut t = TrackerChild::spawn("udp", cfg, &[]);
    if !t.wait_ready(30) {
        let line = t.line_with_wait("RUN-RETURNED", 3000).unwrap_or_default();
        return (0, vec![], format!("{}: not served ({})", label, line.chars().take(120).collect::<String>()));
    }
    let mut viols = Vec::new();
    let mut n = 0;
    let srcs = sources(use4, use6, use6 && !only6);
    let fields: Vec<[u8; 4]> = vec![[0, 0, 0, 0], [127, 0, 0, 1], [127, 0, 0, 2], [8, 8, 8, 8], [255, 255, 255, 255]];
    let mut tx = 100;
    for (xi, x) in srcs.iter().enumerate() {
        for (fi, field) in fields.iter().enumerate() {
            // fresh torrent per case
            let mut h = [0x33u8; 20];
            h[0] = xi as u8;
            h[1] = fi as u8;
            h[2] = uring as u8;
            let fam4 = x.canonical.is_ipv4();
            let xs = udp_client(x.bind);
            xs.set_read_timeout(Some(Duration::from_millis(50))).ok();
            let dstx = SocketAddr::new(x.dst, t.port);
            tx += 1;
            let Some(RefResponse::Connect { connection_id: cx, .. }) = udp_rt(&xs, dstx, &ref_encode_request(&RefRequest::Connect { transaction_id: tx }), fam4, tx) else {
                viols.push(("source-address/udp/no-connect-reply".into(), format!("[{}] no connect reply for source {}", label, x.bind), json!({"config": label})));
                continue;
            };
            tx += 1;
            let xport = 6000 + (xi * 10 + fi) as u16;
            let ann = |cid: i64, tx: i32, port: u16, field: [u8; 4], ev: i32| ref_encode_request(&RefRequest::Announce(RefAnnounce { connection_id: cid, transaction_id: tx, info_hash: h, peer_id: [5; 20], downloaded: 0, left: 1, uploaded: 0, event: ev, ip: field, key: 0, num_want: 50, port }));
            let _ = udp_rt(&xs, dstx, &ann(cx, tx, xport, *field, 2), fam4, tx);
            // every other source of the same canonical family asks for the peer list
            for y in srcs.iter().filter(|y| y.canonical.is_ipv4() == fam4 && y.canonical != x.canonical) {
                n += 1;
                let ys = udp_client(y.bind);
                ys.set_read_timeout(Some(Duration::from_millis(50))).ok();
                let dsty = SocketAddr::new(y.dst, t.port);
                tx += 1;
                let Some(RefResponse::Connect { connection_id: cy, .. }) = udp_rt(&ys, dsty, &ref_encode_request(&RefRequest::Connect { transaction_id: tx }), fam4, tx) else { continue };
                tx += 1;
                let r = udp_rt(&ys, dsty, &ann(cy, tx, 6999, [9, 9, 9, 9], 3), fam4, tx);
                let exp_ip: Vec<u8> = match x.canonical {
                    IpAddr::V4(a) => a.octets().to_vec(),
                    IpAddr::V6(a) => a.octets().to_vec(),
                };
                match r {
                    Some(RefResponse::Announce { peers, .. }) => {
                        let set: BTreeSet<(Vec<u8>, u16)> = peers.into_iter().collect();
                        let exp: BTreeSet<(Vec<u8>, u16)> = [(exp_ip.clone(), xport)].into();
                        if set != exp {
                            let sig = if set.iter().any(|(ip, _)| ip[..] == field[..]) && field != &[0, 0, 0, 0] && exp_ip[..] != field[..] { "source-address/udp/in-request-field-used" } else { "source-address/udp/wrong-peer" };
                            viols.push((sig.into(), format!("[{}] X = {} (sent to {}) announced port {} with in-request address {:?}; Y = {} is told {:?}, expected exactly ({:?}, {})", label, x.bind, x.dst, xport, field, y.bind, set, exp_ip, xport), json!({"config": label, "x": x.bind.to_string(), "field": field})));
                        }
                    }
                    other => viols.push(("source-address/udp/no-announce-reply".into(), format!("[{}] Y = {} got {:?}", label, y.bind, other.map(|_| "another kind of reply")), json!({"config": label}))),
                }
            }
            // the other family does not see the peer
            for y in srcs.iter().filter(|y| y.canonical.is_ipv4() != fam4).take(1) {
                n += 1;
                let ys = udp_client(y.bind);
                ys.set_read_timeout(Some(Duration::from_millis(50))).ok();
                let dsty = SocketAddr::new(y.dst, t.port);
                tx += 1;
                let Some(RefResponse::Connect { connection_id: cy, .. }) = udp_rt(&ys, dsty, &ref_encode_request(&RefRequest::Connect { transaction_id: tx }), !fam4, tx) else { continue };
                tx += 1;
                let s = ref_encode_request(&RefRequest::Scrape { connection_id: cy, transaction_id: tx, info_hashes: vec![h] });
                if let Some(RefResponse::Scrape { stats, .. }) = udp_rt(&ys, dsty, &s, !fam4, tx) {
                    if stats[0] != (0, 0, 0) {
                        viols.push(("source-address/udp/family-leak".into(), format!("[{}] a peer announced from {} is counted in the other family's swarm (scrape from {}: {:?})", label, x.bind, y.bind, stats[0]), json!({"config": label})));
                    }
                }
            }
        }
    }
    // one host through the dual-stack socket and through plain IPv4 with the same port is one IPv4 peer
    if use4 && use6 && !only6 {
        // both sockets exist: 127.0.0.2 -> 127.0.0.1 hits the IPv4 socket; the same host cannot be steered to the IPv6 socket
        // without an explicit mapped destination, which the kernel routes to the IPv4 socket too; covered by the dual-stack-only configuration
    }
    (n, viols, format!("{}: served, {} sources", label, srcs.len()))
}

fn http_e2e(use4: bool, use6: bool, only6: bool) -> (u64, Vec<V>, String) {
    let label = format!("http use_ipv4={} use_ipv6={} set_only_ipv6={}", use4, use6, only6);
    let cfg = json!({"network": {"use_ipv4": use4, "use_ipv6": use6, "set_only_ipv6": only6}});
    let mut t = TrackerChild::spawn("http", cfg, &[]);
    if !t.wait_ready(30) {
        let line = t.line_with_wait("RUN-RETURNED", 3000).unwrap_or_default();
        return (0, vec![], format!("{}: not served ({})", label, line.chars().take(120).collect::<String>()));
    }
    let mut viols = Vec::new();
    let mut n = 0;
    let srcs = sources(use4, use6, use6 && !only6);
    for x in srcs.iter() {
        if !wait_tcp(SocketAddr::new(x.dst, t.port), 8) {
            machinery_failure("http tracker does not accept connections on a configured family");
        }
    }
    for (xi, x) in srcs.iter().enumerate() {
        let mut h = [0x44u8; 20];
        h[0] = xi as u8;
        let fam4 = x.canonical.is_ipv4();
        let xport = 7000 + xi as u16;
        let Some(mut cx) = HttpConn::connect_from(x.bind, SocketAddr::new(x.dst, t.port)) else {
            viols.push(("source-address/http/connect-failed".into(), format!("[{}] cannot connect from {}", label, x.bind), json!({"config": label})));
            continue;
        };
        // an "ip" parameter inside the request must not matter
        let p = format!("{}&ip=8.8.8.8&ipv6=2001:db8::8", http_announce_path(&h, &[5; 20], xport, 1, "started", None, 0));
        cx.send(&http_get(&p, "X-Forwarded-For: 9.9.9.9\r\n"));
        let _ = cx.read_reply();
        for y in srcs.iter().filter(|y| y.canonical.is_ipv4() == fam4 && y.canonical != x.canonical) {
            n += 1;
            let Some(mut cy) = HttpConn::connect_from(y.bind, SocketAddr::new(y.dst, t.port)) else { continue };
            cy.send(&http_get(&http_announce_path(&h, &[6; 20], 7999, 1, "stopped", None, 0), ""));
            match cy.read_reply() {
                Ok(r) => {
                    let b = bencode::decode(&r.body[..r.body.len().saturating_sub(2)]).unwrap_or(bencode::B::Int(0));
                    let (key, w) = if fam4 { ("peers", 6) } else { ("peers6", 18) };
                    let got: Vec<u8> = b.get(key).and_then(|x| x.as_bytes()).map(|x| x.to_vec()).unwrap_or_default();
                    let other: usize = b.get(if fam4 { "peers6" } else { "peers" }).and_then(|x| x.as_bytes()).map(|x| x.len()).unwrap_or(0);
                    let mut exp: Vec<u8> = match x.canonical {
                        IpAddr::V4(a) => a.octets().to_vec(),
                        IpAddr::V6(a) => a.octets().to_vec(),
                    };
                    exp.extend_from_slice(&xport.to_be_bytes());
                    if got != exp || other != 0 || got.len() != w {
                        viols.push(("source-address/http/wrong-peer".into(), format!("[{}] X = {} (to {}) announced port {}; Y = {} is told {:?} (+{} bytes of the other family), expected {:?}", label, x.bind, x.dst, xport, y.bind, got, other, exp), json!({"config": label, "x": x.bind.to_string()})));
                    }
                }
                Err(e) => viols.push(("source-address/http/no-reply".into(), format!("[{}] {:?}", label, e), json!({"config": label}))),
            }
        }
    }
    (n, viols, format!("{}: served, {} sources", label, srcs.len()))
}

fn http_proxy_e2e(th: bool) -> (u64, Vec<V>, String) {
    let cfg = json!({"network": {"runs_behind_reverse_proxy": true, "reverse_proxy_ip_header_name": "X-Real-Client"}});
    let mut t = TrackerChild::spawn("http", cfg, &[]);
    if !t.wait_ready(30) {
        machinery_failure("http proxy tracker did not start");
    }
    let mut viols = Vec::new();
    let mut n = 0;
    let addr = SocketAddr::new(IpAddr::V4(Ipv4Addr::LOCALHOST), t.port);
    // the driver plays the proxy: X's header says 203.0.113.7 (last value of last occurrence), Y's says 203.0.113.8
    let cases: Vec<(&str, Vec<u8>, bool)> = vec![
        ("X-Real-Client: 198.51.100.1\r\nX-Real-Client: 10.0.0.1, 203.0.113.7\r\n", vec![203, 0, 113, 7], true),
        ("X-Real-Client:\t1.1.1.1 ,\t::ffff:203.0.113.9 \r\nUser-Agent: z\r\n", vec![203, 0, 113, 9], true),
        ("X-Real-Client: 2001:db8::7\r\n", "2001:db8::7".parse::<Ipv6Addr>().unwrap().octets().to_vec(), false),
    ];
    for (i, (hdr, exp_ip, fam4)) in cases.iter().enumerate() {
        n += 1;
        let mut h = [0x55u8; 20];
        h[0] = i as u8;
        let mut c = HttpConn::connect(addr).unwrap();
        c.send(&http_get(&http_announce_path(&h, &[5; 20], 7100 + i as u16, 1, "started", None, 0), hdr));
        let _ = c.read_reply();
        let yh = if *fam4 { "X-Real-Client: 203.0.113.200\r\n" } else { "X-Real-Client: 2001:db8::200\r\n" };
        let mut cy = HttpConn::connect(addr).unwrap();
        cy.send(&http_get(&http_announce_path(&h, &[6; 20], 7999, 1, "stopped", None, 0), yh));
        match cy.read_reply() {
            Ok(r) => {
                let b = bencode::decode(&r.body[..r.body.len().saturating_sub(2)]).unwrap_or(bencode::B::Int(0));
                let got: Vec<u8> = b.get(if *fam4 { "peers" } else { "peers6" }).and_then(|x| x.as_bytes()).map(|x| x.to_vec()).unwrap_or_default();
                let mut exp = exp_ip.clone();
                exp.extend_from_slice(&(7100 + i as u16).to_be_bytes());
                if got != exp {
                    viols.push(("source-address/http-proxy/wrong-peer".into(), format!("behind a proxy with headers {:?}: stored peer {:?}, expected the last header value with the request's port {:?}", hdr, got, exp), json!({"headers": hdr})));
                }
            }
            Err(e) => viols.push(("source-address/http-proxy/no-reply".into(), format!("{:?}", e), json!({}))),
        }
    }
    // a proxy reuses its upstream connections: one kept-alive connection carries the announces of different clients.
    // Every sequence of 2 and 3 header values out of 4 (two IPv4, one IPv4-mapped, one IPv6), each in its own torrent.
    let vals: [(&str, IpAddr); 4] = [("203.0.113.21", "203.0.113.21".parse().unwrap()), ("203.0.113.22", "203.0.113.22".parse().unwrap()), ("::ffff:203.0.113.23", "203.0.113.23".parse().unwrap()), ("2001:db8::24", "2001:db8::24".parse().unwrap())];
    let mut seqs: Vec<Vec<usize>> = Vec::new();
    for a in 0..4 {
        for b in 0..4 {
            seqs.push(vec![a, b]);
            for c in 0..4 {
                seqs.push(vec![a, b, c]);
                if th {
                    for d in 0..4 {
                        seqs.push(vec![a, b, c, d]);
                    }
                }
            }
        }
    }
    for (si, seq) in seqs.iter().enumerate() {
        n += 1;
        let mut h = [0x66u8; 20];
        h[0] = (si >> 8) as u8;
        h[1] = si as u8;
        let mut c = match HttpConn::connect(addr) {
            Some(c) => c,
            None => {
                viols.push(("source-address/http-proxy/no-reply".into(), "connect failed".into(), json!({})));
                break;
            }
        };
        let mut exp4: BTreeSet<Vec<u8>> = BTreeSet::new();
        let mut exp6: BTreeSet<Vec<u8>> = BTreeSet::new();
        let mut answered = true;
        for (i, &v) in seq.iter().enumerate() {
            let port = 7200 + i as u16;
            let mut pid = [7u8; 20];
            pid[0] = i as u8;
            c.send(&http_get(&http_announce_path(&h, &pid, port, 1, "started", None, 0), &format!("X-Real-Client: {}\r\n", vals[v].0)));
            answered &= c.read_reply().is_ok();
            match vals[v].1 {
                IpAddr::V4(a) => {
                    let mut e = a.octets().to_vec();
                    e.extend_from_slice(&port.to_be_bytes());
                    exp4.insert(e);
                }
                IpAddr::V6(a) => {
                    let mut e = a.octets().to_vec();
                    e.extend_from_slice(&port.to_be_bytes());
                    exp6.insert(e);
                }
            }
        }
        if !answered {
            viols.push(("source-address/http-proxy/no-reply".into(), format!("kept-alive connection, header values {:?}: a request was not answered", seq), json!({"sequence": seq})));
            continue;
        }
        for (fam4, yh, exp) in [(true, "X-Real-Client: 203.0.113.200\r\n", &exp4), (false, "X-Real-Client: 2001:db8::200\r\n", &exp6)] {
            let mut cy = match HttpConn::connect(addr) {
                Some(c) => c,
                None => continue,
            };
            cy.send(&http_get(&http_announce_path(&h, &[6; 20], 7999, 1, "stopped", None, 0), yh));
            match cy.read_reply() {
                Ok(r) => {
                    let b = bencode::decode(&r.body[..r.body.len().saturating_sub(2)]).unwrap_or(bencode::B::Int(0));
                    let raw: Vec<u8> = b.get(if fam4 { "peers" } else { "peers6" }).and_then(|x| x.as_bytes()).map(|x| x.to_vec()).unwrap_or_default();
                    let got: BTreeSet<Vec<u8>> = raw.chunks(if fam4 { 6 } else { 18 }).map(|x| x.to_vec()).collect();
                    if &got != exp {
                        viols.push(("source-address/http-proxy/kept-alive-connection/wrong-peers".into(), format!("one kept-alive connection carried announces with header values {:?} (ports 7200..): {} peers handed out {:?}, expected {:?}", seq.iter().map(|v| vals[*v].0).collect::<Vec<_>>(), if fam4 { "IPv4" } else { "IPv6" }, got, exp), json!({"sequence": seq})));
                    }
                }
                Err(e) => viols.push(("source-address/http-proxy/no-reply".into(), format!("{:?}", e), json!({}))),
            }
        }
    }
    (n, viols, "http behind reverse proxy: served".into())
}

fn ws_e2e(address: &str, only6: bool) -> (u64, Vec<V>, String) {
    let label = format!("ws address={} only_ipv6={}", address, only6);
    let cfg = json!({"network": {"address": address, "only_ipv6": only6}});
    let mut t = TrackerChild::spawn("ws", cfg, &[]);
    if !t.wait_ready(30) {
        return (0, vec![], format!("{}: not served", label));
    }
    let mut viols = Vec::new();
    let mut n = 0;
    let v4_listen = address.starts_with("0.0.0.0") || address.starts_with("127.");
    let dual = !v4_listen && !only6;
    // clients: (bind, dst, canonical family is v4)
    let mut clients: Vec<(IpAddr, IpAddr, bool)> = Vec::new();
    if v4_listen || dual {
        clients.push(("127.0.0.1".parse().unwrap(), "127.0.0.1".parse().unwrap(), true));
        clients.push(("127.0.0.2".parse().unwrap(), "127.0.0.1".parse().unwrap(), true));
    }
    if !v4_listen {
        clients.push(("::1".parse().unwrap(), "::1".parse().unwrap(), false));
        clients.push(("fd00::2".parse().unwrap(), "fd00::2".parse().unwrap(), false));
    }
    for (_, dst, _) in clients.iter() {
        if !wait_tcp(SocketAddr::new(*dst, t.port), 8) {
            machinery_failure("ws tracker does not accept connections on a configured family");
        }
    }
    let h = id20(&[b'W'; 20]);
    let mut conns: Vec<(WsConn, bool)> = Vec::new();
    for (i, (bind, dst, v4)) in clients.iter().enumerate() {
        match WsConn::connect_from(Some(*bind), SocketAddr::new(*dst, t.port)) {
            Some(mut c) => {
                let mut pid = [b'w'; 20];
                pid[0] = b'0' + i as u8;
                c.send_text(json!({"action": "announce", "info_hash": h, "peer_id": id20(&pid), "left": 1}).to_string());
                let _ = c.recv_text(3000);
                conns.push((c, *v4));
            }
            None => viols.push(("source-address/ws/connect-failed".into(), format!("[{}] cannot connect from {}", label, bind), json!({"config": label}))),
        }
    }
    let n4 = conns.iter().filter(|c| c.1).count() as u64;
    let n6 = conns.iter().filter(|c| !c.1).count() as u64;
    for (c, v4) in conns.iter_mut() {
        n += 1;
        c.send_text(json!({"action": "scrape", "info_hash": h}).to_string());
        let txt = c.recv_text(3000).unwrap_or_default();
        let v: serde_json::Value = serde_json::from_str(&txt).unwrap_or_default();
        let got = v["files"].get(&h).map(|s| s["incomplete"].as_u64().unwrap_or(0)).unwrap_or(0);
        let exp = if *v4 { n4 } else { n6 };
        if got != exp {
            viols.push(("source-address/ws/family".into(), format!("[{}] a connection of family {} sees {} peers in its swarm, expected {} ({} IPv4-sourced incl. mapped, {} IPv6-sourced connections announced)", label, if *v4 { "IPv4" } else { "IPv6" }, got, exp, n4, n6), json!({"config": label})));
        }
    }
    (n, viols, format!("{}: served, {} clients", label, clients.len()))
}

pub fn main(args: &Args) -> ! {
    let mut run = Run::new(args, "exploration");
    run.set("rule", "direct: CanonicalSocketAddr::new / get_ipv6_mapped and the ws IpVersion over IPv4, IPv6, mapped and 24 near-miss addresses x 4 ports; reverse-proxy header layouts (1-3, thorough 1-5, occurrences x as many comma-separated values x 4 whitespace shapes x value kinds x position of unrelated headers x 3 spellings of the field name differing only in letter case, per occurrence) through the socket worker's parse_request; end to end: UDP (mio, io_uring) and HTTP over socket configurations {v4 only, v6 only, v6 dual-stack, both with v6-only}, WS over {v4, v6 only, v6 dual-stack}, sources 127.0.0.1/.2/.3, 192.0.2.2, ::1, fd00::2 (IPv4 hosts also through the dual-stack socket), every in-request address field value; behind a reverse proxy also every sequence of 2 and 3 (thorough: and 4) header values (IPv4, IPv4, mapped, IPv6) announced over one kept-alive connection; X announces, every other source Y of the family reads the peer list, the other family scrapes. A case = one (configuration, X, field, Y) observation");
    run.assume("real non-loopback routing is not available");
    if args.replay.is_some() {
        eprintln!("replay: re-running the check");
    }
    let th = args.tier.thorough();
    let mut evals = direct(&mut run);
    evals += proxy_headers(&mut run, th);
    #[derive(Clone)]
    enum Job {
        Udp(bool, bool, bool, bool),
        Http(bool, bool, bool),
        HttpProxy,
        Ws(&'static str, bool),
    }
    let mut jobs = Vec::new();
    for (u4, u6, o6) in [(true, false, true), (false, true, true), (false, true, false), (true, true, true)] {
        jobs.push(Job::Udp(false, u4, u6, o6));
        if th || (u6 && !o6) || (u4 && u6) {
            jobs.push(Job::Udp(true, u4, u6, o6));
        }
        jobs.push(Job::Http(u4, u6, o6));
    }
    if th {
        jobs.push(Job::Udp(false, true, true, false));
        jobs.push(Job::Http(true, true, false));
    }
    jobs.push(Job::HttpProxy);
    jobs.push(Job::Ws("0.0.0.0:PORT", false));
    jobs.push(Job::Ws("[::]:PORT", true));
    jobs.push(Job::Ws("[::]:PORT", false));
    let res = par_map(&jobs, 10, |j| match j {
        Job::Udp(u, a, b, c) => udp_e2e(*u, *a, *b, *c),
        Job::Http(a, b, c) => http_e2e(*a, *b, *c),
        Job::HttpProxy => http_proxy_e2e(th),
        Job::Ws(a, o) => ws_e2e(a, *o),
    });
    let mut served = 0;
    let mut outcomes = Vec::new();
    for (n, vs, outcome) in res {
        evals += n;
        if n > 0 {
            served += 1;
        }
        outcomes.push(outcome);
        for (sig, what, d) in vs {
            run.violation(sig, what, d);
        }
    }
    run.set("evaluations", evals);
    run.set("distinct_nontrivial", served + 2);
    run.set("socket_configurations", json!(outcomes));
    run.set("exhaustive", true);
    run.sample(json!({"x": "127.0.0.2 -> dual-stack [::]:port (arrives as ::ffff:127.0.0.2)", "in_request_ip_field": "8.8.8.8", "y_is_told": "127.0.0.2 with the announced port"}));
    if served < 8 {
        machinery_failure(&format!("vacuous: only {} socket configurations were served", served));
    }
    run.finish();
}
