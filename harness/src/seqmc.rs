//! seqmc: explicit-state breadth-first search over event histories.
//!
//! A state *is* the history that reaches it; `expand(history)` rebuilds the
//! real object (and the reference model) by replaying the history, applies
//! every enabled event in turn (each on a fresh replay), compares against the
//! oracle and returns the canonical key of each successor. The engine
//! deduplicates on the key, level by level, deterministically.

use std::collections::HashSet;

use serde_json::Value;

use crate::common::{par_map, Violation};

pub struct Step<E> {
    pub event: E,
    /// Canonical key of the successor state (None: do not explore further)
    pub key: Option<u128>,
    /// Fingerprint of the observation made on this transition
    pub outcome: u64,
    pub violations: Vec<Violation>,
    /// Number of real-code calls compared against the oracle on this transition
    pub compared: u64,
}

#[derive(Default, Debug)]
pub struct Report<E> {
    pub states: u64,
    pub transitions: u64,
    pub compared: u64,
    pub max_depth: usize,
    pub fixpoint: bool,
    pub levels: Vec<u64>,
    pub distinct_outcomes: u64,
    pub violations: Vec<(Vec<E>, Violation)>,
    pub sample_histories: Vec<Vec<E>>,
    pub cap_hit: Option<String>,
}

pub struct Limits {
    pub max_depth: usize,
    pub max_states: u64,
    pub max_wall_s: f64,
    pub threads: usize,
}

pub fn bfs<E, F>(init_key: u128, limits: &Limits, expand: F) -> Report<E>
where
    E: Clone + Send + Sync,
    F: Fn(&[E]) -> Vec<Step<E>> + Sync,
{
    let start = std::time::Instant::now();
    let mut seen: HashSet<u128> = HashSet::new();
    seen.insert(init_key);
    let mut outcomes: HashSet<u64> = HashSet::new();
    let mut frontier: Vec<Vec<E>> = vec![Vec::new()];
    let mut rep = Report {
        states: 1,
        transitions: 0,
        compared: 0,
        max_depth: 0,
        fixpoint: false,
        levels: vec![1],
        distinct_outcomes: 0,
        violations: Vec::new(),
        sample_histories: Vec::new(),
        cap_hit: None,
    };
    let mut seen_sigs: HashSet<String> = HashSet::new();

    let mut depth = 0;
    while !frontier.is_empty() {
        if depth >= limits.max_depth {
            rep.cap_hit = Some(format!("depth bound {} reached with {} states in frontier", limits.max_depth, frontier.len()));
            break;
        }
        if start.elapsed().as_secs_f64() > limits.max_wall_s {
            rep.cap_hit = Some(format!("wall cap {}s hit at depth {}", limits.max_wall_s, depth));
            break;
        }
        if rep.states > limits.max_states {
            rep.cap_hit = Some(format!("state cap {} hit at depth {}", limits.max_states, depth));
            break;
        }
        let results: Vec<Vec<Step<E>>> = par_map(&frontier, limits.threads, |h| expand(h));
        let mut next: Vec<Vec<E>> = Vec::new();
        for (hist, steps) in frontier.iter().zip(results.into_iter()) {
            for st in steps {
                rep.transitions += 1;
                rep.compared += st.compared;
                outcomes.insert(st.outcome);
                let mut bad = false;
                for v in st.violations {
                    bad = true;
                    if seen_sigs.insert(v.signature.clone()) {
                        let mut h = hist.clone();
                        h.push(st.event.clone());
                        rep.violations.push((h, v));
                    }
                }
                if bad {
                    continue;
                }
                if let Some(k) = st.key {
                    if seen.insert(k) {
                        let mut h = hist.clone();
                        h.push(st.event.clone());
                        if rep.sample_histories.len() < 6 && (seen.len() % 97 == 3 || h.len() >= 4 && rep.sample_histories.len() < 2) {
                            rep.sample_histories.push(h.clone());
                        }
                        next.push(h);
                    }
                }
            }
        }
        depth += 1;
        if !next.is_empty() {
            rep.max_depth = depth;
            rep.levels.push(next.len() as u64);
            rep.states += next.len() as u64;
        }
        frontier = next;
    }
    if frontier.is_empty() && rep.cap_hit.is_none() {
        rep.fixpoint = true;
    }
    rep.distinct_outcomes = outcomes.len() as u64;
    rep
}

pub fn report_to_cov<E: std::fmt::Debug>(rep: &Report<E>, prefix: &str, cov: &mut serde_json::Map<String, Value>) {
    use serde_json::json;
    cov.insert(format!("{}states", prefix), json!(rep.states));
    cov.insert(format!("{}transitions", prefix), json!(rep.transitions));
    cov.insert(format!("{}compared_calls", prefix), json!(rep.compared));
    cov.insert(format!("{}max_depth", prefix), json!(rep.max_depth));
    cov.insert(format!("{}fixpoint", prefix), json!(rep.fixpoint));
    cov.insert(format!("{}levels", prefix), json!(rep.levels));
    cov.insert(format!("{}distinct_outcomes", prefix), json!(rep.distinct_outcomes));
    if let Some(c) = &rep.cap_hit {
        cov.insert(format!("{}cap_hit", prefix), json!(c));
    }
}
