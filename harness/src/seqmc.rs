//! seqmc: explicit-state breadth-first search over event histories.
//!
//! A state *is* the history that reaches it; `expand(history)` rebuilds the
//! real object (and the reference model) by replaying the history, applies
//! every enabled event in turn (each on a fresh replay), compares against the
//! oracle and returns the canonical key of each successor. The engine
//! deduplicates on the key, level by level, deterministically.

use std::collections::HashSet;

use serde_json::Value;

use crate::common::{par_map, Violation};

pub struct Step<E> {
    pub event: E,
    /// Canonical key of the successor state (None: do not explore further)
    pub key: Option<u128>,
    /// Fingerprint of the observation made on this transition
    pub outcome: u64,
    pub violations: Vec<Violation>,
    /// Number of real-code calls compared against the oracle on this transition
    pub compared: u64,
}

#[derive(Default, Debug)]
pub struct Report<E> {
    pub states: u64,
    pub transitions: u64,
    pub compared: u64,
    pub max_depth: usize,
    pub fixpoint: bool,
    pub levels: Vec<u64>,
    pub distinct_outcomes: u64,
    pub violations: Vec<(Vec<E>, Violation)>,
    pub sample_histories: Vec<Vec<E>>,
    pub cap_hit: Option<String>,
}

pub struct Limits {
    pub max_depth: usize,
    pub max_states: u64,
    pub max_wall_s: f64,
    pub threads: usize,
}

pub fn bfs<E, F>(init_key: u128, limits: &Limits, expand: F) -> Report<E>
where
    E: Clone + Send + Sync,
    F: Fn(&[E]) -> Vec<Step<E>> + Sync,
{
    let start = std::time::Instant::now();
    let mut seen: HashSet<u128> = HashSet::new();
    seen.insert(init_key);
    let mut outcomes: HashSet<u64> = HashSet::new();
    let mut frontier: Vec<Vec<E>> = vec![Vec::new()];
    let mut rep = Report {
        states: 1,
        transitions: 0,
        compared: 0,
        max_depth: 0,
        fixpoint: false,
        levels: vec![1],
        distinct_outcomes: 0,
        violations: Vec::new(),
        sample_histories: Vec::new(),
        cap_hit: None,
    };
    let mut seen_sigs: HashSet<String> = HashSet::new();

    let mut depth = 0;
    while !frontier.is_empty() {
        if depth >= limits.max_depth {
            rep.cap_hit = Some(format!("depth bound {} reached with {} states in frontier", limits.max_depth, frontier.len()));
            break;
        }
        if start.elapsed().as_secs_f64() > limits.max_wall_s {
            rep.cap_hit = Some(format!("wall cap {}s hit at depth {}", limits.max_wall_s, depth));
            break;
        }
        if rep.states > limits.max_states {
            rep.cap_hit = Some(format!("state cap {} hit at depth {}", limits.max_states, depth));
            break;
        }
        let results: Vec<Vec<Step<E>>> = par_map(&frontier, limits.threads, |h| expand(h));
        let mut next: Vec<Vec<E>> = Vec::new();
        for (hist, steps) in frontier.iter().zip(results.into_iter()) {
            for st in steps {
                rep.transitions += 1;
                rep.compared += st.compared;
                outcomes.insert(st.outcome);
                let mut bad = false;
                for v in st.violations {
                    bad = true;
                    if seen_sigs.insert(v.signature.clone()) {
                        let mut h = hist.clone();
                        h.push(st.event.clone());
                        rep.violations.push((h, v));
                    }
                }
                if bad {
                    continue;
                }
                if let Some(k) = st.key {
                    if seen.insert(k) {
                        let mut h = hist.clone();
                        h.push(st.event.clone());
                        if rep.sample_histories.len() < 6 && (seen.len() % 97 == 3 || h.len() >= 4 && rep.sample_histories.len() < 2) {
                            rep.sample_histories.push(h.clone());
                        }
                        next.push(h);
                    }
                }
            }
        }
        depth += 1;
        if !next.is_empty() {
            rep.max_depth = depth;
            rep.levels.push(next.len() as u64);
            rep.states += next.len() as u64;
        }
        frontier = next;
    }
    if frontier.is_empty() && rep.cap_hit.is_none() {
        rep.fixpoint = true;
    }
    rep.distinct_outcomes = outcomes.len() as u64;
    rep
}

pub fn report_to_cov<E: std::fmt::Debug>(rep: &Report<E>, prefix: &str, cov: &mut serde_json::Map<String, Value>) {
    use serde_json::json;
    cov.insert(format!("{}states", prefix), json!(rep.states));
    cov.insert(format!("{}transitions", prefix), json!(rep.transitions));
    cov.insert(format!("{}compared_calls", prefix), json!(rep.compared));
    cov.insert(format!("{}max_depth", prefix), json!(rep.max_depth));
    cov.insert(format!("{}fixpoint", prefix), json!(rep.fixpoint));
    cov.insert(format!("{}levels", prefix), json!(rep.levels));
    cov.insert(format!("{}distinct_outcomes", prefix), json!(rep.distinct_outcomes));
    if let Some(c) = &rep.cap_hit {
        cov.insert(format!("{}cap_hit", prefix), json!(c));
    }
}

// ---------------------------------------------------------------------------
// Glue: a "system" is a factory of worlds (real object + reference model)

use crate::common::{fp64, machinery_failure, panic_message, Run};
use serde::{de::DeserializeOwned, Serialize};

pub struct StepOut {
    pub outcome: u64,
    pub violations: Vec<Violation>,
    pub compared: u64,
}

pub trait World<E> {
    /// Apply the event to the real object and to the reference model, compare
    fn apply(&mut self, ev: &E) -> StepOut;
    /// Internal consistency of the implementation state
    fn invariants(&self) -> Vec<Violation>;
    /// Canonical state key
    fn key(&self) -> u128;
    /// Destructive observations (the world is discarded afterwards)
    fn probes(&mut self) -> (u64, Vec<Violation>, u64);
}

pub trait Sys<E>: Sync {
    type W: World<E>;
    fn name(&self) -> String;
    fn tag(&self) -> &'static str;
    fn fresh(&self) -> Self::W;
    fn events(&self, w: &Self::W) -> Vec<E>;
}

pub fn replay<E, S: Sys<E>>(sys: &S, hist: &[E]) -> S::W {
    let mut w = sys.fresh();
    for e in hist {
        w.apply(e);
    }
    w
}

fn one<E, S: Sys<E>>(sys: &S, hist: &[E], ev: &E) -> Result<(u128, u64, Vec<Violation>, u64), String> {
    std::panic::catch_unwind(std::panic::AssertUnwindSafe(|| {
        let mut w = replay(sys, hist);
        let out = w.apply(ev);
        let mut violations = out.violations;
        violations.extend(w.invariants());
        let key = w.key();
        let (pf, pv, pc) = w.probes();
        violations.extend(pv);
        (key, fp64(&(out.outcome, pf)), violations, out.compared + pc)
    }))
    .map_err(|e| panic_message(&e))
}

fn panic_violation(tag: &str, msg: String) -> Violation {
    Violation { signature: format!("{}/panic", tag), what: format!("tracker code panicked: {}", msg), detail: serde_json::json!({}) }
}

pub fn expand<E: Clone, S: Sys<E>>(sys: &S, hist: &[E]) -> Vec<Step<E>> {
    let base = replay(sys, hist);
    let evs = sys.events(&base);
    drop(base);
    evs.into_iter()
        .map(|ev| match one(sys, hist, &ev) {
            Ok((key, outcome, violations, compared)) => Step { event: ev, key: Some(key), outcome, violations, compared },
            Err(msg) => Step { event: ev, key: None, outcome: 0, violations: vec![panic_violation(sys.tag(), msg)], compared: 1 },
        })
        .collect()
}

fn sigs_of<E, S: Sys<E>>(sys: &S, hist: &[E], ev: &E) -> Vec<String> {
    let mut s: Vec<String> = match one(sys, hist, ev) {
        Ok((_, _, v, _)) => v.into_iter().map(|v| v.signature).collect(),
        Err(_) => vec![format!("{}/panic", sys.tag())],
    };
    s.sort();
    s
}

/// Straight-line replay of a recorded history, without the explorer
pub fn replay_case<E, S: Sys<E>>(sys: &S, hist: &[E]) -> Vec<Violation> {
    let r = std::panic::catch_unwind(std::panic::AssertUnwindSafe(|| {
        let mut out = Vec::new();
        let mut w = sys.fresh();
        for (i, e) in hist.iter().enumerate() {
            let o = w.apply(e);
            for mut v in o.violations {
                v.what = format!("at event {}: {}", i, v.what);
                out.push(v);
            }
            out.extend(w.invariants());
        }
        let (_, pv, _) = w.probes();
        out.extend(pv);
        out
    }));
    r.unwrap_or_else(|e| vec![panic_violation(sys.tag(), panic_message(&e))])
}

/// Run one BFS and fold the results into the run's evidence.
pub fn run_bfs<E, S>(run: &mut Run, sys: &S, limits: &Limits, need_fixpoint: bool) -> bool
where
    E: Clone + Send + Sync + Serialize + std::fmt::Debug,
    S: Sys<E>,
{
    use serde_json::json;
    let name = sys.name();
    let init = sys.fresh().key();
    let rep = bfs(init, limits, |h| expand(sys, h));
    let prefix = format!("{}.", name);
    report_to_cov(&rep, &prefix, &mut run.cov);
    run.add("states", rep.states);
    run.add("transitions", rep.transitions);
    run.add("traces_validated_against_impl", rep.transitions);
    run.add("compared_calls", rep.compared);
    let md = run.get("max_depth").max(rep.max_depth as u64);
    run.set("max_depth", md);
    eprintln!(
        "[{}] {}: states={} transitions={} depth={} fixpoint={} outcomes={} cap={:?} t={:.1}s",
        run.id, name, rep.states, rep.transitions, rep.max_depth, rep.fixpoint, rep.distinct_outcomes, rep.cap_hit, run.elapsed()
    );
    for h in rep.sample_histories.iter().take(2) {
        run.sample(json!({ "run": name, "history": h }));
    }
    for (hist, v) in rep.violations {
        // determinism: replay the offending history twice more and insist on identical observations
        let (prefix_h, last) = hist.split_at(hist.len() - 1);
        let r1 = sigs_of(sys, prefix_h, &last[0]);
        let r2 = sigs_of(sys, prefix_h, &last[0]);
        if r1 != r2 || !r1.iter().any(|s| *s == v.signature) {
            machinery_failure(&format!("violation {} did not reproduce identically on replay of {:?}", v.signature, hist));
        }
        run.violation(
            v.signature.clone(),
            format!("{} [shortest history, {} events]", v.what, hist.len()),
            json!({ "engine": sys.tag(), "alphabet": name, "history": hist, "signature": v.signature }),
        );
    }
    if need_fixpoint && !rep.fixpoint {
        run.set("exhaustive", false);
        run.set("note_cap", format!("{}: fixpoint not reached ({:?})", name, rep.cap_hit));
    }
    rep.fixpoint
}

/// `--replay` for seqmc-based checks: find the system by name, replay the history.
pub fn replay_from_file<E, S>(run: &mut Run, r: &Value, systems: &[S]) -> bool
where
    E: DeserializeOwned + Serialize,
    S: Sys<E>,
{
    use serde_json::json;
    let name = r["detail"]["alphabet"].as_str().unwrap_or("");
    let Some(sys) = systems.iter().find(|s| s.name() == name) else {
        return false;
    };
    if r["detail"]["engine"].as_str() != Some(sys.tag()) {
        return false;
    }
    let hist: Vec<E> = serde_json::from_value(r["detail"]["history"].clone()).unwrap_or_else(|e| machinery_failure(&format!("bad history: {}", e)));
    for v in replay_case(sys, &hist) {
        run.violation(v.signature.clone(), v.what.clone(), json!({ "engine": sys.tag(), "alphabet": name, "history": hist }));
    }
    run.set("states", 1);
    run.set("transitions", hist.len());
    run.set("traces_validated_against_impl", 1);
    true
}
