//! Counting global allocator: bytes requested on the current thread since the last reset.

use std::alloc::{GlobalAlloc, Layout, System};
use std::cell::Cell;

pub struct Counting;

thread_local! {
    static BYTES: Cell<u64> = const { Cell::new(0) };
}

unsafe impl GlobalAlloc for Counting {
    unsafe fn alloc(&self, l: Layout) -> *mut u8 {
        let _ = BYTES.try_with(|b| b.set(b.get() + l.size() as u64));
        System.alloc(l)
    }
    unsafe fn dealloc(&self, p: *mut u8, l: Layout) {
        System.dealloc(p, l)
    }
    unsafe fn alloc_zeroed(&self, l: Layout) -> *mut u8 {
        let _ = BYTES.try_with(|b| b.set(b.get() + l.size() as u64));
        System.alloc_zeroed(l)
    }
    unsafe fn realloc(&self, p: *mut u8, l: Layout, new_size: usize) -> *mut u8 {
        if new_size > l.size() {
            let _ = BYTES.try_with(|b| b.set(b.get() + (new_size - l.size()) as u64));
        }
        System.realloc(p, l, new_size)
    }
}

pub fn reset() {
    BYTES.with(|b| b.set(0));
}

pub fn get() -> u64 {
    BYTES.with(|b| b.get())
}
