#!/bin/sh
# tools/lane.sh <patch.diff | seeded-id> [check ids...]   (LANE=<n> selects the lane, default 1; TIER=quick|thorough)
# A side lane for trying property-breaking changes without touching /repo: /tmp/aqv-lane<n>/repo is a scratch worktree of /repo's HEAD,
# /tmp/aqv-lane<n>/harness a copy of /verif/harness whose path dependencies point at that worktree, with its own target directory
# (first use copies /verif/target as a warm cache). The patch is applied to a clean worktree, the checks run with their evidence
# redirected, and the worktree is cleaned again. Verdicts that count are still taken in /repo itself (tools/try_seeded.sh).
# tools/lane.sh --remove removes the lane with its build output.
set -u
L=/tmp/aqv-lane${LANE:-1}
if [ "${1:-}" = "--remove" ]; then
    git -C /repo worktree remove --force $L/repo 2>/dev/null; rm -rf $L; git -C /repo worktree prune; exit 0
fi
P="$1"; shift
[ -f "$P" ] || P=/verif/seeded/$P/patch.diff
[ -f "$P" ] || { echo "no such patch: $P"; exit 2; }
CHECKS="$*"
if [ -z "$CHECKS" ]; then CHECKS=$(python3 -c "import json,os;m=json.load(open(os.path.dirname('$P')+'/meta.json'));print(m.get('checks',m['property']))"); fi
mkdir -p $L
if [ ! -d $L/repo ]; then git -C /repo worktree add -q --detach $L/repo HEAD || exit 2; fi
git -C $L/repo checkout -q --detach "$(git -C /repo rev-parse HEAD)" && git -C $L/repo checkout -q -- . && git -C $L/repo clean -fdq -e target
[ -d $L/target ] || cp -r /verif/target $L/target
rsync -a --delete /verif/harness/ $L/harness/
sed -i "s#/repo/crates#$L/repo/crates#g" $L/harness/Cargo.toml
sed -i "s#/verif/target#$L/target#" $L/harness/.cargo/config.toml
git -C $L/repo apply "$P" || { echo "patch does not apply"; exit 2; }
cd $L/harness && CARGO_NET_OFFLINE=true cargo build --quiet 2>$L/build.log || { tail -30 $L/build.log; echo "lane build failed"; git -C $L/repo checkout -q -- .; exit 2; }
for c in $CHECKS; do
    out=$(AQV_EVIDENCE_DIR=$L/evidence $L/target/debug/aqv "$c" --tier ${TIER:-quick} 2>&1); code=$?
    sigs=$(echo "$out" | grep -E "^violation:" | sed 's/^violation: \([^ ]*\) ::.*/\1/' | sort -u | tr '\n' ' ')
    echo "lane patch=$P check=$c exit=$code signatures: $sigs"
    [ "$code" = 2 ] && echo "$out" | tail -5
done
git -C $L/repo checkout -q -- .
