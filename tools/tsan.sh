#!/bin/sh
# Builds the free-running stress under ThreadSanitizer (nightly, -Zbuild-std) and runs it.
# Prints TSAN-UNAVAILABLE if the build cannot be done offline here; TSAN-RACES <n> otherwise.
cd /verif/tsan || exit 2
export CARGO_NET_OFFLINE=true
if ! RUSTFLAGS="-Zsanitizer=thread" cargo +nightly build -Zbuild-std --target x86_64-unknown-linux-gnu --offline >/verif/target/tsan-build.log 2>&1; then
    echo "TSAN-UNAVAILABLE (see /verif/target/tsan-build.log)"
    exit 0
fi
TSAN_OPTIONS="halt_on_error=0 exitcode=0 second_deadlock_stack=1" /verif/target/tsan/x86_64-unknown-linux-gnu/debug/aqv_tsan "$@" >/verif/target/tsan-run.log 2>&1
n=$(grep -c "WARNING: ThreadSanitizer: data race" /verif/target/tsan-run.log)
if grep -q "TSAN-STRESS-DONE" /verif/target/tsan-run.log; then
    echo "TSAN-RACES $n"
    grep -A12 "WARNING: ThreadSanitizer: data race" /verif/target/tsan-run.log | grep -E "aquatic_udp|swarm.rs" | head -5
else
    echo "TSAN-UNAVAILABLE (stress did not finish; see /verif/target/tsan-run.log)"
fi
