#!/bin/sh
# tools/try_seeded.sh <seeded-id> [check ids...]
# Applies /verif/seeded/<id>/patch.diff to /repo, runs the given checks (default: the property in meta.json, quick tier),
# prints one line per check, and undoes the change.
set -u
ID="$1"; shift
DIR=/verif/seeded/$ID
[ -f "$DIR/patch.diff" ] || { echo "no such seeded change: $ID"; exit 2; }
if [ -n "$(git -C /repo status --porcelain)" ]; then echo "/repo has uncommitted changes; refusing"; exit 2; fi
CHECKS="$*"
if [ -z "$CHECKS" ]; then CHECKS=$(python3 -c "import json;m=json.load(open('$DIR/meta.json'));print(m.get('checks',m['property']))"); fi
git -C /repo apply "$DIR/patch.diff" || { echo "patch does not apply"; exit 2; }
for c in $CHECKS; do
    out=$(AQV_EVIDENCE_DIR=/tmp/aqv-evidence-seeded /verif/check "$c" --tier quick 2>&1); code=$?
    sigs=$(echo "$out" | grep -E "^violation:" | sed 's/^violation: \([^ ]*\) ::.*/\1/' | sort -u | tr '\n' ' ')
    echo "seeded=$ID check=$c exit=$code signatures: $sigs"
done
git -C /repo checkout -- .
find /verif/replays -name '*.json' -delete
rm -rf /tmp/aqv-evidence-seeded
