#!/bin/sh
# tools/seed_prep.sh <round> <ids...>: scratch worktrees /tmp/wt<round>-<id> of /repo HEAD (with a copy of /repo/target as build cache)
# and /tmp/prop-<id>.txt with the property text, for independent sub-agents that write property-breaking changes.
R="$1"; shift
for id in "$@"; do
  d=/tmp/wt$R-$id
  git -C /repo worktree add -q "$d" HEAD && cp -r /repo/target "$d/target"
  python3 - "$id" <<'PY'
import json,sys
for l in open('/verif/properties.jsonl'):
    p=json.loads(l)
    if p['id']==sys.argv[1]:
        a=p['anchors']
        t=f"Property {p['id']}: {p['title']}.\n{p['statement']}\nQuantified over: {p['quantifier']['text']}\nAnchored in: {', '.join(a['files'])}\n"
        open(f"/tmp/prop-{p['id']}.txt",'w').write(t)
PY
done
ls -d /tmp/wt$R-* 2>/dev/null
