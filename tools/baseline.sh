#!/bin/sh
# Runs the repository's own suite with the guard OFF and prints pass/fail totals.
cd /repo && cargo test --workspace --no-fail-fast --offline 2>&1 | grep -E "^test result|FAILED|failed|panicked" > /var/tmp/baseline_off.log
awk '/^test result/ {p+=$4; f+=$6} END {print "passed=" p " failed=" f}' /var/tmp/baseline_off.log
