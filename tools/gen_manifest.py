#!/usr/bin/env python3
"""Generates /verif/MANIFEST.json from the table below (single source of truth)."""
import json, subprocess, sys

CHECKS = {
 "C01": dict(level="model_checking", engine="seqmc", ref="§3 C01",
   technique="explicit-state BFS over event histories on the real storage functions, dedup on canonical state, reference-model oracle",
   text="Breadth-first exploration to a fixpoint of every announce/scrape/clean/tick history over small alphabets (1 torrent x 4 keys; 2 torrents x 2 families; 2 torrents x 2 keys; both families under the configuration in which IPv4 hosts are served through the dual-stack IPv6 socket alone, use_ipv4 = false), every transition executed on the real aquatic_udp::swarm::TorrentMaps and compared with a reference tracker, plus hand-out/scrape probes in every state. Exhaustive within the alphabet; right level because the property quantifies over histories.",
   note="Alphabet bounds (keys, torrents, clock 0..2); sequential histories only; verif_dump (hook H3) trusted to read state faithfully."),
 "C07": dict(level="model_checking", engine="seqmc", ref="§3 C07",
   technique="explicit-state BFS over event histories on the real HTTP swarm storage, dedup on canonical state, reference-model oracle",
   text="BFS to a fixpoint (order-free key, 5-6 keys crossing the inline<=4/heap switch; two torrents x two families with max_scrape_torrents=2, repeated / unknown / excess hashes; IPv6 with stops of never-seen torrents) and depth-bounded with storage order in the key; every transition runs aquatic_http's TorrentMaps (hook H4, mock clock H1) and is compared with a reference tracker; hand-out and scrape probes in every state; torrent count after each clean.",
   note="Alphabet bounds; order-free key is cross-checked by the ordered run; verif_dump (H4) and the clock override (H1) trusted."),
 "C08": dict(level="model_checking", engine="seqmc", ref="§3 C08",
   technique="explicit-state BFS over event histories on the real WS swarm storage plus a model of the socket worker's per-connection bookkeeping, reference-model oracle",
   text="BFS over announce/scrape/close/clean/tick histories from connections on two socket workers whose slot keys coincide, two-three peer ids, one-two torrents, both families: fixpoint for 2 connections x 2 peer ids, depth-bounded for 3x3x2. Every out-message list is compared with a reference tracker with per-connection ownership.",
   note="Socket-side bookkeeping (announced_info_hashes) is a 30-line model of connection.rs, exercised end to end by C17; depth bound where no fixpoint; scrapes within max_scrape_torrents."),
 "C09": dict(level="model_checking", engine="seqmc", ref="§3 C09",
   technique="explicit-state BFS over event histories on the real WS swarm storage, oracle on every out-message list",
   text="BFS over announces carrying 0-3 offers (repeated offer ids) and answers (right / wrong / unknown peer, wrong id, twice, after stop / close / ageing with and without clean) among 2-4 peers on 1-2 torrents with max_offers 1-2: fixpoint for the 2-peer alphabet, depth-bounded otherwise. Checks count, distinctness, addressee and tagging of every forwarded offer and the exact pending-offer rule for answers.",
   note="Receiver choice is the implementation's; the oracle checks legality and follows it. Depth bounds as reported."),
 "C10": dict(level="model_checking", engine="seqmc", ref="§3 C10",
   technique="explicit-state BFS with time-focused alphabets on the UDP, HTTP and WS storages + exhaustive grid over ValidUntil",
   text="For all three storages: every announce time, several maximum ages, stale worker samples, cleans at every clock value (so deadline-1, deadline, deadline+1 all occur), inline and heap representations, seeders and leechers, WS offers; to a fixpoint except the 5-key HTTP run (depth-bounded in quick). Reference tracker oracle + probes in every state; ValidUntil::valid on a full small grid and u32 extremes.",
   note="Mock clock is monotone; sampling cadence of the socket workers is read from the code, not explored."),
 "C20": dict(level="model_checking", engine="seqmc", ref="§3 C20",
   technique="explicit-state BFS over event histories on the real UDP storage with statistics, tallies and scrape export enabled (reference-model oracle after every cleaning pass) + exhaustive crash-point enumeration of the export via syscall interposition",
   text="BFS to a fixpoint over announce / stop / re-announce-with-new-peer-id / expiry histories (3 keys x 3 peer ids; 2 torrents x 2 families; heap maps) with the statistics worker's own fold as tally; after every clean: torrent and peer totals, per-client tallies and the parsed export file equal the reference tracker. Crash points: the export runs in a child executable that interposes open / write / rename / unlink; for exports of 0, 1, 3, 300 and 3000 (thorough 20000) torrents with no, a small and a large previous export, the process is killed immediately before every file-system-mutating call and after the last one (111 crash points quick); the configured path must hold the complete previous or the complete new export; a concurrent reader polling the path during 40 exports sees only those two.",
   note="Tally fold is a model of run_statistics_worker's loop; process-kill crash model (no power loss: the export path has no fsync); access list off."),
 "C05": dict(level="exploration", engine="enum", ref="§3 C05",
   technique="exhaustive enumeration of a boundary grid and of all 1-/2-bit alterations through the real ConnectionValidator, integer oracle",
   text="Every cell of max_connection_age x issue time x check offset x issuing IP x checking IP (176k cells incl. 0, 60/61 s, 2^31 and u32::MAX boundaries, IPv4/IPv6 addresses sharing octets) is run through the real validator (clock set via hook H2) and compared with the rule evaluated in unbounded integers; at 80 accepted points all 64 single-bit and 2016 double-bit alterations, foreign-key ids, other-address ids and structured forgeries must be rejected.",
   note="MAC strength itself (2^-32) is assumed; an accepted alteration counts only if reproduced under three independently keyed validators; clock cadence of the workers not explored."),
 "C13": dict(level="exploration", engine="enum", ref="§3 C13",
   technique="exhaustive enumeration of a constructed message space against an independent BEP 15 codec (differential, byte-exact)",
   text="All message kinds with boundary field values (full product event x port x numwant x left, every single field swept, every truncation length, every single-bit flip of an announce, 0..=255 scrape hashes x 8 limits, 0..=80 reply peers of both families, 0..=255 scrape entries) are encoded by the library and by an independent explicit-offset BEP 15 encoder (bytes must be equal), decoded by both (values must be equal), and round-tripped.",
   note="The reference codec in c13.rs is the specification."),
 "C14": dict(level="exploration", engine="enum", ref="§3 C14",
   technique="exhaustive enumeration of a constructed request / reply space against an independent URL-identifier decoder and a strict canonical bencode codec",
   text="Library-written requests (all events x numwant x key shapes, numeric extremes, every byte value at every identifier position) must parse back equal; hand-built query strings (all 120 permutations of 5 parameters, rotations, unknown keys at every position, lower/upper hex and raw identifiers, identifier strings of every length 0..=40, out-of-range characters) must give the expected request or be rejected; every reply (0..=60 peers per family, 0..=40 scrape entries, failures) must equal an independent canonical bencode encoding byte for byte and parse back.",
   note="Counts are limited to < 2^63 (serde_bencode integers); malformed percent escapes inside identifiers are not judged."),
 "C15": dict(level="exploration", engine="enum", ref="§3 C15",
   technique="exhaustive enumeration of a constructed JSON message space through the real codec, expected value for every case",
   text="Every in/out message kind with optional fields present / absent / null, SDP strings covering every control and Latin-1 character, U+2028, non-BMP and 60 KiB, identifiers with every byte value at every position, each as text and as binary WebSocket message, must round-trip; serialised identifiers must be 20 characters <= U+00FF; hand-built identifier strings of every length 0..=40 over {'a','é','Ā','𝕊'} raw and escaped are accepted exactly when 20 characters <= U+00FF.",
   note="serde_json (encode) and simd-json (decode) are used exactly as the tracker and client do."),
 "C02": dict(level="exploration", engine="enum", ref="§3 C02",
   technique="exhaustive enumeration of swarm sizes x limits x requested counts x requester positions x every outcome of the two random offsets (scripted RNG / seed sweep with measured full coverage) through the real selection code",
   text="For n = 0..=64 (thorough 128) stored peers, 13 configured maxima, negative / zero / small / boundary / huge requested counts, requester absent and at first / middle-1 / middle / last position, insertion order and removal-permuted order, both families: UDP TorrentMaps::announce, HTTP handle_announce_request and WS extract_response_peers are called for every (offset_one, offset_two) outcome and the returned list is checked to be distinct, members only, requester-free, within the limit, complete when the torrent is small and at least limit-1 (WS: exactly limit) otherwise.",
   note="n > 64 not explored; requester-present cases use boundary offsets (selection runs after the requester's removal); HTTP/WS use a scripted generator calibrated against the real sampling, UDP a seed sweep whose pair coverage is measured (incomplete coverage = exit 2)."),
 "C12": dict(level="exploration", engine="enum", ref="§3 C12",
   technique="exhaustive enumeration of all byte strings up to length 2-3 and of the complete single-step mutation space of a corpus of valid messages through the real parsers and handlers, in a child process with tracker-sized stacks and a counting allocator",
   text="18 parser entry points (UDP request x 4 limits, UDP replies, HTTP request / path / socket-level parse with and without proxy header, bencode replies, JSON in/out as text and binary, peer-id client, access-list line) x (every byte string of length <= 2; every truncation, 1-4 byte extension, single-bit flip, single-byte substitution by all 256 values, deletion and duplication of ~45 valid messages; 627 structural extremes incl. nesting to 32768 and 64 KiB strings), plus 34k extreme-field requests through the real UDP / HTTP / WS handlers x limits {0,1,2,default} x swarm sizes. No panic (overflow checks on), no process death, allocation <= 64 x len + 64 KiB.",
   note="Two-step mutations and inputs longer than the corpus messages are not enumerated; Connection::read_request's documented panic on a missing proxy header is out of scope."),
 "C04": dict(level="model_checking", engine="coop", ref="§3 C04",
   technique="stateless exploration of all thread interleavings at lock-operation granularity (CHESS-style controlled scheduler over real threads, prefix replay), per-torrent linearizability oracle",
   text="Real OS threads run announce / scrape / clean on the real shared TorrentMaps; the instrumented RwLock (hook H3) yields to a baton scheduler at every acquire, upgrade and release, a mirror lock table decides enabledness (so deadlock = no enabled thread) and every interleaving is enumerated by DFS with prefix replay: all 2-thread one-operation programs over 9 operations x 4 initial states exhaustively, 3-thread programs and 2-operation programs under an iterated preemption bound, two concurrent cleaning passes with every lock operation of all 32 shards a choice point, and a cross-shard family (3- and 4-thread programs: scrapes naming a shard-0 and a shard-1 torrent in either order next to announces that insert never-seen torrents into those shards and a cleaning pass - the smallest shape in which readers and upgrading writers of two shard locks can wait for each other in a cycle). Every execution's call/return history must be linearizable per torrent (brute force over orders) including the quiescent final state, so an answered announce lost to a concurrent cleaning pass is a violation. The mirror lock table is itself validated against the real lock on free-running threads (lock litmus: every reachable state of one lock with 2-3 threads, every transition executed on the real RwLock; a discrepancy is exit 2).",
   note="Sequential consistency; mirror lock table validated by the lock litmus (25 ms is the observation that a call is blocked); footprint reduction (locks touched by one thread are not choice points) asserted at run time and cross-checked; preemption bounds as reported in the evidence."),
 "C06": dict(level="exploration", engine="netmc", ref="§3 C06",
   technique="exhaustive enumeration of a datagram alphabet x connection-id classes x sources against real socket workers over loopback (mio and io_uring), fenced per socket, oracle from an independent BEP 15 decoder and a clone of the validator",
   text="~2300 datagrams per backend configuration (connect shapes, announce events / numwant extremes / port 0 / extension bytes up to 5000 / 97 bytes / unknown event, scrapes of 1..255 hashes incl. the 23/24 and 70/71 boundaries, empty and ragged hash lists, unknown action, every truncation length, every single-bit flip of one announce and one scrape) x {valid, other-source, far-future, forged, stale} connection ids x sources 127.0.0.1, 127.0.0.2, ::1 are sent to real run_socket_worker threads (mio / io_uring, 1 and 2 workers); each reply is attributed by transaction id, absence is established by a fence connect on the same socket; at most one reply, to the sender only, of the right kind, nothing but a <= request-size connect reply without a valid id, scrape entries exactly the first max_scrape_torrents in order, swarm state unchanged by rejected datagrams.",
   note="Scheduling inside the workers is not controlled; source port 0 is injected through a raw IPv4 socket; datagrams beyond 5 KiB not sent."),
 "C18": dict(level="exploration", engine="netmc", ref="§3 C18",
   technique="exhaustive enumeration of configuration values against real trackers started through run() in child processes, worst-case accepted request per value, control request of identical length",
   text="For UDP (mio and io_uring, IPv4 and IPv6) and HTTP, every configuration value in the tier's range (quick: 0, 1, defaults, both sides of each buffer threshold; thorough: every value 0..=600 plus IPv4 thresholds, every u8 max_scrape_torrents) starts a real tracker through run() - or the start-up is observed to be refused; the swarm is filled to exactly the limit and to limit+1 and the request with the largest possible reply is sent; HTTP scrapes of every hash count the request buffer admits are sent, each paired with a same-length control request, so that a closed connection or silence with an answered control is a reply that did not fit. WebTorrent: websocket_write_buffer_size x websocket_max_message_size x max_scrape_torrents x swarm workers (quick: the defaults and each value on its own; thorough: the full product of 54): the largest accepted announce with an offer, its answer, and a scrape of max_scrape_torrents torrents with six-byte-per-character identifiers must be delivered whole and leave the connections usable. A configuration with findings is run again on its own and only what shows again is reported.",
   note="Requests the request path rejects are out of scope (C06/C16); counters are small (buffers are sized for 20-digit counters); WebTorrent frames are sent fragmented below websocket_max_frame_size."),
 "C19": dict(level="fault_enumeration", engine="netmc", ref="§3 C19",
   technique="exhaustive enumeration of fault plans (worker kind x fault point x panic/return x time x worker count) against run() in child processes, injected through cfg-gated probes",
   text="78 (quick) / ~180 (thorough) fault plans: for UDP (mio and io_uring), HTTP and WS, every worker kind (socket, swarm, cleaning, statistics, signals, metrics/prometheus) is made to panic - and, where returning ends the worker function, to return - at start-up, at its first loop iteration and after requests have been served, with 1 and 2 workers of the kind; plus a tracker socket and a metrics endpoint that cannot be bound (no hook). Each plan runs the real run() in a child process with traffic / SIGUSR1 as needed to reach the point; run() must return Err within 10 s of the probe firing. A plan whose point is never reached is a machinery failure, not a pass.",
   note="Hanging workers are not covered; a panic in the metrics thread's detached tokio render task does not stop the worker and is not a plan; time is measured inside the child from the probe firing."),
 "C16": dict(level="model_checking", engine="netmc", ref="§3 C16",
   technique="explicit-state BFS of a reference model + conformance replay of every explored transition against running trackers over all worker-count configurations and placements",
   text="A reference model (one tracker, 2-3 connections, 2-3 torrents; announce / scrape shapes / malformed / oversized / close) is explored breadth-first with deduplication; every transition of the explored graph (1.6k quick, more at depth 4) is replayed - BFS-tree path to its source, then the transition, in a fresh info-hash namespace - against aquatic_http::run in child processes for socket_workers x swarm_workers configurations (quick 4, thorough all 18 incl. keep-alive off), connections placed on chosen socket workers (hook H7) and torrents on chosen swarm workers; short paths under every placement; max_scrape_torrents=2 and =0 families; deep scenarios with 6 connections and 6 peers per torrent; every byte-offset split of one announce and one scrape into TCP segments. Each reply must be exactly one HTTP/1.1 200 with exact Content-Length, canonical bencode equal to the single-tracker model.",
   note="Executor scheduling inside the tracker is not controlled (requests of a path are serial; paths run concurrently in disjoint namespaces); malformed requests are judged by 120 ms of silence."),
 "C17": dict(level="model_checking", engine="netmc", ref="§3 C17",
   technique="explicit-state BFS over event sequences of a reference model + conformance replay of every explored transition against running trackers (worker-count configurations, placements), every connection fenced after every event",
   text="Event sequences (announce with own / another connection's peer id, with offers, answers to received offers, scrapes merged over swarm workers, orderly and abrupt close) are enumerated breadth-first with deduplication on an abstract model state (depth 2-3 on the full alphabet, 4-5 on a signalling alphabet); each explored transition is replayed with its BFS-tree path in a fresh namespace against aquatic_ws::run for socket_workers x swarm_workers in {1,2,3}^2 (quick: the diagonal) with connections on chosen socket workers (hook H7) and torrents on chosen swarm workers; after every event every connection plus a monitor connection is fenced by a scrape covering all swarm workers and the messages each connection received must be exactly those a reference tracker with per-connection ownership allows (offer receivers are the implementation's choice, checked for legality and followed). 30 ownership paths run on fresh 2-worker trackers where two connections are each the first of their socket worker, so that per-worker connection ids coincide. Pipelined bursts: n = 1..=16 (and 17, 24, 64, 200) requests written to one connection in a single flush must all be answered and all their offers delivered (beyond 16 in flight the tracker drops messages: known finding). Large messages: forwarded offers and answers at every size class up to the 64 KiB message limit and scrape replies for 1..300 torrents must arrive whole and leave the connections usable. A connection the tracker closes itself for idleness must lose its peers too.",
   note="Executor scheduling not controlled; paths issue one request at a time, pipelining and message sizes have their own exhaustive phases; dedup ignores pending offers."),
 "C11": dict(level="model_checking", engine="seqmc", ref="§3 C11",
   technique="exhaustive enumeration of list-file contents x reload sequences; explicit-state BFS over announce / reload / clean histories on a live socket worker and on the storages; SIGUSR1 reload sequences against all three run()",
   text="Layer 1: 57 list-file variants (subsets of {A,B} in lower / upper / mixed hex, blank lines, surrounding blanks and tabs, CRLF, missing final newline; missing file, directory, a bad line of five kinds at first / middle / last position, invalid UTF-8) in all reload sequences of length <= 2 (thorough 3) x 3 modes through update_access_list: decisions follow the last good list, a failed reload returns Err and changes nothing. Layer 2: BFS (dedup on list in force x stored torrents) over announce-datagram / reload / clean histories on a live UDP socket worker (mio and io_uring) and seqmc over the HTTP and WS storages with reload events. Layer 3: aquatic_udp/http/ws run() in child processes x modes: file rewritten, SIGUSR1, reload completion awaited via the H8 counter, announces of A/B/C, timer-driven clean, scrapes, over {}->{A}->{B}->malformed->{A,B}->missing.",
   note="Layer 3 waits 2.3 s per step for a timer-driven cleaning pass; HTTP/WS gates are exercised in layer 3 only."),
 "C03": dict(level="exploration", engine="netmc", ref="§3 C03",
   technique="exhaustive enumeration of address classes and reverse-proxy header layouts through the real functions, and of socket configurations x source addresses x in-request address fields against real trackers over loopback",
   text="Direct: CanonicalSocketAddr::new / get_ipv6_mapped and the ws IpVersion over IPv4, IPv6, IPv4-mapped and 24 near-miss addresses x ports; ~2700 reverse-proxy header layouts (1-3 occurrences x 1-3 values x whitespace shapes x value kinds x unrelated headers x letter case of the field name per occurrence) through the HTTP socket worker's parse_request. End to end: UDP (mio, io_uring) and HTTP started through run() for {v4 only, v6 only, v6 dual-stack, both}, WS for {v4, v6 only, dual-stack}; sources 127.0.0.1/.2/.3, 192.0.2.2, ::1, fd00::2, IPv4 hosts also through the dual-stack socket; X announces with every in-request ip value, every other source Y of the family must be told exactly (network source of X, announced port) and the other family must not see the peer; HTTP behind a proxy with the driver as proxy, including every sequence of 2-3 header values (IPv4, IPv4, mapped, IPv6) announced over one kept-alive connection.",
   note="Loopback / local addresses only; letter case of the header name varied per occurrence; behind a proxy every sequence of 2-3 header values over one kept-alive connection."),
}

NOT_YET = {}

def main():
    props = [json.loads(l) for l in open('/verif/properties.jsonl')]
    ids = [p['id'] for p in props]
    try:
        commits = subprocess.check_output(['git','-C','/repo','log','--format=%H %s']).decode().splitlines()
    except Exception:
        commits = []
    hook_commits = [c.split()[0] for c in commits if ' verif hook' in c]
    checks = []
    for i in ids:
        if i not in CHECKS: continue
        c = CHECKS[i]
        checks.append({
            "property_id": i,
            "quick_cmd": f"./check {i} --tier quick",
            "thorough_cmd": f"./check {i} --tier thorough",
            "evidence_file": f"/verif/evidence/{i}.json",
            "replay_cmd_template": f"./check {i} --replay {{path}}",
            "engine": c["engine"],
            "level_claimed": {"category": c["level"], "text": c["text"], "design_ref": c["ref"]},
            "level_note": c["note"],
            "technique": c["technique"],
        })
    na = []
    for i in ids:
        if i in CHECKS: continue
        na.append({"property_id": i, "reason": NOT_YET.get(i, "check not built yet in this round (designed in DESIGN.md; construction order §7); not a statement that the technique cannot apply")})
    m = {
        "version": 1,
        "setup_cmd": "cd /verif/harness && CARGO_NET_OFFLINE=true cargo build 2>&1 | tail -3",
        "hooks": {
            "guard": "--cfg aquatic_verif",
            "enable": "harness/.cargo/config.toml sets rustflags = [\"--cfg\", \"aquatic_verif\"]; the harness crate path-depends on /repo/crates/*, so every ./check rebuilds /repo's working tree with hooks on",
            "baseline_off_cmd": "cd /repo && cargo test --workspace --no-fail-fast --offline",
            "source_commits": list(reversed(hook_commits)),
            "add_only": True,
        },
        "engines": [
            {"name": "seqmc", "path": "harness/src/seqmc.rs", "serves_properties": [i for i in ids if i in CHECKS and CHECKS[i]["engine"]=="seqmc"], "kind_free_text": "explicit-state BFS over event histories; every transition is executed on the real code"},
            {"name": "coop", "path": "harness/src/coop.rs", "serves_properties": [i for i in ids if i in CHECKS and CHECKS[i]["engine"]=="coop"], "kind_free_text": "CHESS-style controlled scheduler over real threads at lock-operation granularity"},
            {"name": "netmc", "path": "harness/src/netmc.rs", "serves_properties": [i for i in ids if i in CHECKS and CHECKS[i]["engine"]=="netmc"], "kind_free_text": "real trackers over loopback, exhaustive over model paths / configurations / fault plans"},
            {"name": "enum", "path": "harness/src/props", "serves_properties": [i for i in ids if i in CHECKS and CHECKS[i]["engine"]=="enum"], "kind_free_text": "exhaustive enumeration of finite, explicitly constructed input spaces through the real functions"},
        ],
        "checks": checks,
        "not_applicable": na,
        "notes": "Exit codes: 0 held / only known findings, 1 unlisted violation, 2 machinery failure (never a verdict). See DESIGN.md.",
    }
    json.dump(m, open('/verif/MANIFEST.json','w'), indent=1)
    print("checks:", len(checks), "not_applicable:", len(na))

if __name__ == '__main__':
    main()
