#!/usr/bin/env python3
"""Generates /verif/MANIFEST.json from the table below (single source of truth)."""
import json, subprocess, sys

CHECKS = {
 "C01": dict(level="model_checking", engine="seqmc", ref="§3 C01",
   technique="explicit-state BFS over event histories on the real storage functions, dedup on canonical state, reference-model oracle",
   text="Breadth-first exploration to a fixpoint of every announce/scrape/clean/tick history over small alphabets (1 torrent x 4 keys; 2 torrents x 2 families; 2 torrents x 2 keys), every transition executed on the real aquatic_udp::swarm::TorrentMaps and compared with a reference tracker, plus hand-out/scrape probes in every state. Exhaustive within the alphabet; right level because the property quantifies over histories.",
   note="Alphabet bounds (keys, torrents, clock 0..2); sequential histories only; verif_dump (hook H3) trusted to read state faithfully."),
}

NOT_YET = {}

def main():
    props = [json.loads(l) for l in open('/verif/properties.jsonl')]
    ids = [p['id'] for p in props]
    try:
        commits = subprocess.check_output(['git','-C','/repo','log','--format=%H %s']).decode().splitlines()
    except Exception:
        commits = []
    hook_commits = [c.split()[0] for c in commits if ' verif hook' in c]
    checks = []
    for i in ids:
        if i not in CHECKS: continue
        c = CHECKS[i]
        checks.append({
            "property_id": i,
            "quick_cmd": f"./check {i} --tier quick",
            "thorough_cmd": f"./check {i} --tier thorough",
            "evidence_file": f"/verif/evidence/{i}.json",
            "replay_cmd_template": f"./check {i} --replay {{path}}",
            "engine": c["engine"],
            "level_claimed": {"category": c["level"], "text": c["text"], "design_ref": c["ref"]},
            "level_note": c["note"],
            "technique": c["technique"],
        })
    na = []
    for i in ids:
        if i in CHECKS: continue
        na.append({"property_id": i, "reason": NOT_YET.get(i, "check not built yet in this round (designed in DESIGN.md; construction order §7); not a statement that the technique cannot apply")})
    m = {
        "version": 1,
        "setup_cmd": "cd /verif/harness && CARGO_NET_OFFLINE=true cargo build 2>&1 | tail -3",
        "hooks": {
            "guard": "--cfg aquatic_verif",
            "enable": "harness/.cargo/config.toml sets rustflags = [\"--cfg\", \"aquatic_verif\"]; the harness crate path-depends on /repo/crates/*, so every ./check rebuilds /repo's working tree with hooks on",
            "baseline_off_cmd": "cd /repo && cargo test --workspace --no-fail-fast --offline",
            "source_commits": list(reversed(hook_commits)),
            "add_only": True,
        },
        "engines": [
            {"name": "seqmc", "path": "harness/src/seqmc.rs", "serves_properties": [i for i in ids if i in CHECKS and CHECKS[i]["engine"]=="seqmc"], "kind_free_text": "explicit-state BFS over event histories; every transition is executed on the real code"},
            {"name": "coop", "path": "harness/src/coop.rs", "serves_properties": [i for i in ids if i in CHECKS and CHECKS[i]["engine"]=="coop"], "kind_free_text": "CHESS-style controlled scheduler over real threads at lock-operation granularity"},
            {"name": "netmc", "path": "harness/src/netmc.rs", "serves_properties": [i for i in ids if i in CHECKS and CHECKS[i]["engine"]=="netmc"], "kind_free_text": "real trackers over loopback, exhaustive over model paths / configurations / fault plans"},
            {"name": "enum", "path": "harness/src/props", "serves_properties": [i for i in ids if i in CHECKS and CHECKS[i]["engine"]=="enum"], "kind_free_text": "exhaustive enumeration of finite, explicitly constructed input spaces through the real functions"},
        ],
        "checks": checks,
        "not_applicable": na,
        "notes": "Exit codes: 0 held / only known findings, 1 unlisted violation, 2 machinery failure (never a verdict). See DESIGN.md.",
    }
    json.dump(m, open('/verif/MANIFEST.json','w'), indent=1)
    print("checks:", len(checks), "not_applicable:", len(na))

if __name__ == '__main__':
    main()
