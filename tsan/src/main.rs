//! Free-running multi-thread stress of aquatic_udp::swarm::TorrentMaps, built with -Zsanitizer=thread.
//! No baton here: a cooperative scheduler's hand-offs are happens-before edges that would blind the detector.

use std::net::{IpAddr, Ipv4Addr, SocketAddr};
use std::num::NonZeroU16;

use aquatic_common::{CanonicalSocketAddr, SecondsSinceServerStart, ValidUntil};
use aquatic_udp::config::Config;
use aquatic_udp::swarm::TorrentMaps;
use aquatic_udp_protocol::*;
use rand::{RngExt, SeedableRng};

fn main() {
    let threads: usize = std::env::args().nth(1).and_then(|s| s.parse().ok()).unwrap_or(6);
    let ops: usize = std::env::args().nth(2).and_then(|s| s.parse().ok()).unwrap_or(4000);
    let maps = TorrentMaps::default();
    let config = Config::default();
    std::thread::scope(|s| {
        for tid in 0..threads {
            let maps = maps.clone();
            let config = config.clone();
            s.spawn(move || {
                let (tx, _rx) = crossbeam_channel::unbounded();
                let stats = Default::default();
                let access = Default::default();
                let mut rng = rand::rngs::SmallRng::seed_from_u64(tid as u64 + 1);
                for i in 0..ops {
                    let h = [(rng.random_range(0..3u8)) * 16; 20];
                    let src = CanonicalSocketAddr::new(SocketAddr::new(IpAddr::V4(Ipv4Addr::new(10, 0, 0, tid as u8 + 1)), 1));
                    match rng.random_range(0..12u32) {
                        0 => maps.clean_and_update_statistics(&config, &stats, &tx, &access, SecondsSinceServerStart::new_raw((i % 7) as u32), false),
                        1 | 2 => {
                            let _ = maps.scrape(ScrapeRequest { connection_id: ConnectionId::new(0), transaction_id: TransactionId::new(0), info_hashes: vec![InfoHash(h), InfoHash([32; 20])] }, src);
                        }
                        x => {
                            let req = AnnounceRequest {
                                connection_id: ConnectionId::new(0),
                                action_placeholder: Default::default(),
                                transaction_id: TransactionId::new(i as i32),
                                info_hash: InfoHash(h),
                                peer_id: PeerId([tid as u8; 20]),
                                bytes_downloaded: NumberOfBytes::new(0),
                                bytes_left: NumberOfBytes::new((x % 2) as i64),
                                bytes_uploaded: NumberOfBytes::new(0),
                                event: if x < 5 { AnnounceEvent::Stopped } else { AnnounceEvent::Started }.into(),
                                ip_address: Ipv4AddrBytes([0; 4]),
                                key: PeerKey::new(0),
                                peers_wanted: NumberOfPeers::new(10),
                                port: Port::new(NonZeroU16::new(1000 + (x % 3) as u16).unwrap()),
                            };
                            let vu = ValidUntil::new_with_now(SecondsSinceServerStart::new_raw((i % 7) as u32), 3);
                            let _ = maps.announce(&config, &tx, &mut rng, &req, src, vu);
                        }
                    }
                }
            });
        }
    });
    println!("TSAN-STRESS-DONE threads={} ops={}", threads, ops);
}
